use rlverif::engine::{install_panic_hook, Opts, Tier};
use rlverif::props;
use std::path::PathBuf;

fn usage() -> ! {
    eprintln!("usage: rlverif <PROPERTY-ID> [--tier quick|thorough] [--replay <file>] [--seed <n>]");
    std::process::exit(2);
}

fn main() {
    let args: Vec<String> = std::env::args().skip(1).collect();
    if args.is_empty() {
        usage();
    }
    let id = args[0].to_uppercase();
    let mut tier = match std::env::var("VERIF_TIER").ok().as_deref() {
        Some("thorough") => Tier::Thorough,
        _ => Tier::Quick,
    };
    let mut seed: u64 = std::env::var("VERIF_SEED")
        .ok()
        .and_then(|s| s.trim().parse::<i64>().ok())
        .map(|v| v as u64)
        .unwrap_or(1);
    let mut replay: Option<PathBuf> = None;
    let mut i = 1;
    while i < args.len() {
        match args[i].as_str() {
            "--tier" => {
                i += 1;
                tier = match args.get(i).map(|s| s.as_str()) {
                    Some("quick") => Tier::Quick,
                    Some("thorough") => Tier::Thorough,
                    _ => usage(),
                };
            }
            "--replay" => {
                i += 1;
                replay = Some(PathBuf::from(args.get(i).unwrap_or_else(|| usage())));
            }
            "--gen-corpus" => {
                // write the seed corpus of the byte-level JSON fuzz target into a directory
                i += 1;
                let dir = PathBuf::from(args.get(i).unwrap_or_else(|| usage()));
                pyo3::prepare_freethreaded_python();
                install_panic_hook();
                std::fs::create_dir_all(&dir).expect("corpus dir");
                let seeds = rlverif::props::c20::seed_corpus();
                for (k, s) in seeds.iter().enumerate() {
                    std::fs::write(dir.join(format!("seed-{:03}", k)), s).expect("write seed");
                }
                println!("{} seed documents written to {}", seeds.len(), dir.display());
                std::process::exit(0);
            }
            "--from-bytes" => {
                // debugging aid: decode a fuzzer input into the property's case and judge it
                i += 1;
                let data = std::fs::read(args.get(i).unwrap_or_else(|| usage())).expect("read input");
                pyo3::prepare_freethreaded_python();
                install_panic_hook();
                let known = rlverif::engine::load_known(&id);
                match props::fuzz_dispatch(&id, &known, &data) {
                    Some(rlverif::engine::FuzzOutcome::Violation { replay, failure }) => {
                        println!("VIOLATION property={} replay={}\n  clause: {}\n  detail: {}", id, replay.display(), failure.clause, failure.detail);
                        std::process::exit(1);
                    }
                    Some(_) => {
                        println!("no violation");
                        std::process::exit(0);
                    }
                    None => usage(),
                }
            }
            "--seed" => {
                i += 1;
                seed = args.get(i).and_then(|s| s.parse().ok()).unwrap_or_else(|| usage());
            }
            _ => usage(),
        }
        i += 1;
    }
    let threads = std::env::var("RLVERIF_THREADS")
        .ok()
        .and_then(|s| s.parse().ok())
        .unwrap_or(16usize);

    // Errors in rateslib are PyErr; formatting one needs an interpreter, and `expect` on a
    // PyErr formats it while panicking. Without this a library panic becomes an abort.
    pyo3::prepare_freethreaded_python();
    install_panic_hook();

    // watchdog: a hang is reported as inconclusive (exit 2), never as a violation
    let limit = std::env::var("RLVERIF_WATCHDOG_S")
        .ok()
        .and_then(|s| s.parse().ok())
        .unwrap_or(match tier {
            Tier::Quick => 1500u64,
            Tier::Thorough => 6 * 3600,
        });
    std::thread::spawn(move || {
        std::thread::sleep(std::time::Duration::from_secs(limit));
        println!("INCONCLUSIVE: watchdog fired after {} s", limit);
        std::process::exit(2);
    });

    let opts = Opts {
        tier,
        seed,
        threads,
        replay,
    };
    let code = props::dispatch(&id, &opts).unwrap_or_else(|| {
        eprintln!("unknown property id {}", id);
        2
    });
    std::process::exit(code);
}
