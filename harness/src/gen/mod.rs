pub mod cal;
