//! Generators of calendars (plain, combined, named) and of dates aimed at the places where
//! date logic is delicate: holiday runs, month and year ends, settlement-only closures.

use crate::model::civil;
use crate::util::day_to_ndt;
use proptest::prelude::*;
use rateslib::calendars::{get_calendar_by_name, Cal, CalType, DateRoll, NamedCal, UnionCal};
use serde::{Deserialize, Serialize};

pub const BUILTIN: [&str; 14] = [
    "all", "bus", "nyc", "fed", "tgt", "ldn", "stk", "osl", "zur", "tro", "tyo", "syd", "wlg", "mum",
];

/// A plain calendar: masked weekdays (0 = Mon .. 6 = Sun) and holidays as day numbers.
#[derive(Clone, Debug, Serialize, Deserialize, PartialEq)]
pub struct CalSpec {
    pub mask: Vec<u8>,
    pub hols: Vec<i64>,
}

impl CalSpec {
    pub fn build(&self) -> Cal {
        Cal::new(self.hols.iter().map(|z| day_to_ndt(*z)).collect(), self.mask.clone())
    }
    /// model: business day?
    pub fn is_bus(&self, z: i64) -> bool {
        !self.mask.contains(&(civil::weekday(z) as u8)) && !self.hols.contains(&z)
    }
}

#[derive(Clone, Debug, Serialize, Deserialize, PartialEq)]
pub enum MemberSpec {
    Custom(CalSpec),
    Builtin(String),
}

thread_local! {
    static BUILTIN_CACHE: std::cell::RefCell<std::collections::HashMap<String, Cal>> = std::cell::RefCell::new(Default::default());
    static NAMED_CACHE: std::cell::RefCell<std::collections::HashMap<String, std::rc::Rc<CalType>>> = std::cell::RefCell::new(Default::default());
}

/// A built-in calendar, built by the library once per thread and then cloned (the name to
/// table mapping itself is the subject of C06/C07, which do not use this cache).
pub fn builtin_cal(name: &str) -> Cal {
    BUILTIN_CACHE.with(|c| {
        c.borrow_mut()
            .entry(name.to_string())
            .or_insert_with(|| get_calendar_by_name(name).expect("builtin calendar name"))
            .clone()
    })
}

/// `is_bus_day` of a built-in plain calendar, without cloning it out of the cache.
pub fn builtin_is_bus(name: &str, z: i64) -> bool {
    BUILTIN_CACHE.with(|c| {
        c.borrow_mut()
            .entry(name.to_string())
            .or_insert_with(|| get_calendar_by_name(name).expect("builtin calendar name"))
            .is_bus_day(&day_to_ndt(z))
    })
}

impl MemberSpec {
    pub fn build(&self) -> Cal {
        match self {
            MemberSpec::Custom(c) => c.build(),
            MemberSpec::Builtin(n) => builtin_cal(n),
        }
    }
}

#[derive(Clone, Debug, Serialize, Deserialize, PartialEq)]
pub struct UnionSpec {
    pub members: Vec<MemberSpec>,
    pub settle: Option<Vec<MemberSpec>>,
}

impl UnionSpec {
    pub fn build(&self) -> UnionCal {
        UnionCal::new(
            self.members.iter().map(|m| m.build()).collect(),
            self.settle
                .as_ref()
                .map(|v| v.iter().map(|m| m.build()).collect()),
        )
    }
}

#[derive(Clone, Debug, Serialize, Deserialize, PartialEq)]
pub enum AnyCal {
    Cal(CalSpec),
    Union(UnionSpec),
    Named(String),
}

impl AnyCal {
    pub fn build(&self) -> CalType {
        match self {
            AnyCal::Cal(c) => CalType::Cal(c.build()),
            AnyCal::Union(u) => CalType::UnionCal(u.build()),
            AnyCal::Named(n) => CalType::NamedCal(NamedCal::try_new(n).expect("valid calendar name")),
        }
    }
    /// As `build`, but named calendars are built once per thread and shared.
    pub fn build_cached(&self) -> std::rc::Rc<CalType> {
        match self {
            AnyCal::Named(n) => NAMED_CACHE.with(|c| {
                let mut c = c.borrow_mut();
                if c.len() > 256 {
                    c.clear();
                }
                c.entry(n.clone())
                    .or_insert_with(|| std::rc::Rc::new(self.build()))
                    .clone()
            }),
            _ => std::rc::Rc::new(self.build()),
        }
    }
    pub fn kind(&self) -> &'static str {
        match self {
            AnyCal::Cal(_) => "cal:plain",
            AnyCal::Union(u) => {
                if u.settle.is_some() {
                    "cal:union+settle"
                } else {
                    "cal:union"
                }
            }
            AnyCal::Named(n) => {
                if n.contains('|') {
                    "cal:named+settle"
                } else {
                    "cal:named"
                }
            }
        }
    }
    /// Model of the combination rule, from the parts: (business day, valid settlement day) by the
    /// definition "business day in every member" / "business day in every settlement calendar
    /// (always, if there are none)". Custom parts are decided by the spec itself, built-in parts
    /// by the plain built-in calendar object (a leaf, not a combination).
    pub fn model_eligibility(&self, z: i64) -> (bool, bool) {
        let member = |m: &MemberSpec| match m {
            MemberSpec::Custom(c) => c.is_bus(z),
            MemberSpec::Builtin(n) => builtin_is_bus(n, z),
        };
        match self {
            AnyCal::Cal(c) => (c.is_bus(z), true),
            AnyCal::Union(u) => (u.members.iter().all(member), u.settle.as_ref().map_or(true, |v| v.iter().all(member))),
            AnyCal::Named(n) => {
                let lower = n.to_lowercase();
                let mut halves = lower.split('|');
                let leaf = |name: &str| builtin_is_bus(name, z);
                let bus = halves.next().map_or(true, |h| h.split(',').all(leaf));
                let settle = halves.next().map_or(true, |h| h.split(',').all(leaf));
                (bus, settle)
            }
        }
    }
    pub fn has_settle(&self) -> bool {
        match self {
            AnyCal::Cal(_) => false,
            AnyCal::Union(u) => u.settle.as_ref().map_or(false, |v| !v.is_empty()),
            AnyCal::Named(n) => n.contains('|'),
        }
    }
}

/// A day in 1971..2199 weighted towards month ends, year ends and Easter.
pub fn base_day() -> impl Strategy<Value = i64> {
    let lo = civil::days_from_civil(1971, 1, 1);
    let hi = civil::days_from_civil(2199, 12, 31);
    prop_oneof![
        3 => lo..=hi,
        3 => (1971i64..2200, 1u32..=12, -4i64..=4).prop_map(|(y, m, o)| {
            civil::days_from_civil(y, m, civil::month_len(y, m)) + o
        }),
        1 => (1971i64..2200, -8i64..=8).prop_map(|(y, o)| civil::days_from_civil(y, 12, 31) + o),
        1 => (1971i64..2200, -5i64..=5).prop_map(|(y, o)| civil::easter_days(y) + o),
    ]
}

/// Week masks leaving at least one working weekday.
pub fn mask() -> impl Strategy<Value = Vec<u8>> {
    prop_oneof![
        5 => Just(vec![5u8, 6]),
        1 => Just(vec![]),
        1 => Just(vec![4u8, 5]),
        3 => proptest::collection::btree_set(0u8..7, 1..=6).prop_map(|s| s.into_iter().collect()),
    ]
}

/// Holidays as offsets around day 0 (shifted to a base day afterwards with `shift`, so that no
/// flat-map is needed and shrinking stays effective): runs of consecutive days, singles,
/// duplicates allowed.
pub fn hols_rel(spread: i64) -> impl Strategy<Value = Vec<i64>> {
    let nr = if spread > 100 { 8 } else { 4 };
    let ns = if spread > 100 { 16 } else { 8 };
    let runs = proptest::collection::vec(
        // mostly short runs; now and then a whole month, a closure of 100-160 days (a long market
        // suspension; a calendar that lists everything but a few dealing days), rarely one of more
        // than a year (Kuwait 1990-92)
        (-spread..=spread, prop_oneof![80 => 1i64..=4, 20 => 5i64..=12, 4 => 26i64..=36, 2 => 100i64..=160, 1 => 367i64..=800]),
        0..nr,
    );
    let singles = proptest::collection::vec(-(spread + spread / 3)..=(spread + spread / 3), 0..ns);
    (runs, singles).prop_map(move |(runs, singles)| {
        let mut v = Vec::new();
        for (s, l) in runs {
            for i in 0..l {
                v.push(s + i);
            }
        }
        for s in singles {
            v.push(s);
        }
        v
    })
}

pub fn cal_spec_rel(spread: i64) -> impl Strategy<Value = CalSpec> {
    (mask(), hols_rel(spread)).prop_map(|(mask, hols)| CalSpec { mask, hols })
}

pub fn builtin_name() -> impl Strategy<Value = String> {
    (0usize..BUILTIN.len()).prop_map(|i| BUILTIN[i].to_string())
}

pub fn member_rel(spread: i64) -> impl Strategy<Value = MemberSpec> {
    prop_oneof![
        3 => cal_spec_rel(spread).prop_map(MemberSpec::Custom),
        1 => builtin_name().prop_map(MemberSpec::Builtin),
    ]
}

pub fn union_spec_rel(spread: i64) -> impl Strategy<Value = UnionSpec> {
    (
        proptest::collection::vec(member_rel(spread), 1..4),
        prop_oneof![
            2 => Just(None),
            1 => Just(Some(vec![])),
            5 => proptest::collection::vec(member_rel(spread), 1..3).prop_map(Some),
        ],
    )
        .prop_map(|(members, settle)| sanitise_union(UnionSpec { members, settle }))
}

/// The documented precondition of every date search is that some weekday is a working day
/// (otherwise the search cannot terminate). For a combination that must hold for the
/// combination as a whole - members and settlement calendars together - so if the drawn masks
/// cover the whole week, Wednesday is made a working day everywhere.
pub fn sanitise_union(mut u: UnionSpec) -> UnionSpec {
    let mut covered = [false; 7];
    let mut mark = |m: &MemberSpec| match m {
        MemberSpec::Custom(c) => c.mask.iter().for_each(|d| covered[*d as usize] = true),
        MemberSpec::Builtin(n) => {
            if n != "all" {
                covered[5] = true;
                covered[6] = true;
            }
        }
    };
    u.members.iter().for_each(&mut mark);
    if let Some(s) = &u.settle {
        s.iter().for_each(&mut mark);
    }
    if covered.iter().all(|c| *c) {
        let fix = |m: &mut MemberSpec| {
            if let MemberSpec::Custom(c) = m {
                c.mask.retain(|d| *d != 2);
            }
        };
        u.members.iter_mut().for_each(fix);
        if let Some(s) = &mut u.settle {
            s.iter_mut().for_each(fix);
        }
    }
    u
}

/// A valid name string over the built-in names: 1-3 members, optional `|` and 1-2 settlement
/// names, random letter case.
pub fn named_string() -> impl Strategy<Value = String> {
    (
        // 1-3 members as a rule; now and then a long list (the G10 union has ten codes)
        prop_oneof![19 => proptest::collection::vec(builtin_name(), 1..4), 1 => proptest::collection::vec(builtin_name(), 9..14)],
        proptest::option::weighted(0.6, prop_oneof![19 => proptest::collection::vec(builtin_name(), 1..3), 1 => proptest::collection::vec(builtin_name(), 9..14)]),
        any::<u32>(),
    )
        .prop_map(|(m, s, case_bits)| {
            let mut name = m.join(",");
            if let Some(s) = s {
                name.push('|');
                name.push_str(&s.join(","));
            }
            name.chars()
                .enumerate()
                .map(|(i, c)| {
                    if (case_bits >> (i % 32)) & 1 == 1 {
                        c.to_ascii_uppercase()
                    } else {
                        c
                    }
                })
                .collect()
        })
}

pub fn any_cal_rel(spread: i64) -> impl Strategy<Value = AnyCal> {
    prop_oneof![
        3 => cal_spec_rel(spread).prop_map(AnyCal::Cal),
        5 => union_spec_rel(spread).prop_map(AnyCal::Union),
        2 => named_string().prop_map(AnyCal::Named),
    ]
}

impl CalSpec {
    pub fn shift(mut self, b: i64) -> Self {
        self.hols.iter_mut().for_each(|h| *h += b);
        self
    }
}
impl MemberSpec {
    pub fn shift(self, b: i64) -> Self {
        match self {
            MemberSpec::Custom(c) => MemberSpec::Custom(c.shift(b)),
            o => o,
        }
    }
}
impl UnionSpec {
    pub fn shift(self, b: i64) -> Self {
        UnionSpec {
            members: self.members.into_iter().map(|m| m.shift(b)).collect(),
            settle: self.settle.map(|v| v.into_iter().map(|m| m.shift(b)).collect()),
        }
    }
}
impl AnyCal {
    pub fn shift(self, b: i64) -> Self {
        match self {
            AnyCal::Cal(c) => AnyCal::Cal(c.shift(b)),
            AnyCal::Union(u) => AnyCal::Union(u.shift(b)),
            o => o,
        }
    }
}
