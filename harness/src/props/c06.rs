//! C06 - Combined and named calendars mean the union of their parts.

use crate::engine::*;
use crate::gen::cal::*;
use crate::model::civil::*;
use crate::util::*;
use proptest::prelude::*;
use rateslib::calendars::{get_calendar_by_name, Cal, CalType, DateRoll, NamedCal, UnionCal};
use serde::{Deserialize, Serialize};
use std::collections::HashSet;

#[derive(Clone, Debug, Serialize, Deserialize)]
pub enum Case {
    /// a combined calendar against the all/any model of its parts, for every date of the range
    Union { spec: UnionSpec },
    /// a valid name string against the explicit combination of the named parts
    Named { name: String },
    /// a string that must be rejected
    Invalid { name: String },
    /// `==` between calendars of different kinds against a full-range behavioural comparison
    Equality { a: AnyCal, b: AnyCal },
}

pub struct C06;

/// Holidays anywhere in the supported range, including its first and last day.
fn hols_wide() -> impl Strategy<Value = Vec<i64>> {
    let any_day = prop_oneof![
        8 => DAY_MIN..=day_max(),
        1 => Just(DAY_MIN),
        1 => Just(day_max()),
    ];
    proptest::collection::vec(any_day, 0..12)
}

fn cal_spec_wide() -> impl Strategy<Value = CalSpec> {
    (base_day(), cal_spec_rel(60), hols_wide()).prop_map(|(b, c, extra)| {
        let mut c = c.shift(b);
        c.hols.extend(extra);
        c
    })
}

fn member_wide() -> impl Strategy<Value = MemberSpec> {
    prop_oneof![
        3 => cal_spec_wide().prop_map(MemberSpec::Custom),
        1 => builtin_name().prop_map(MemberSpec::Builtin),
    ]
}

fn union_wide() -> impl Strategy<Value = UnionSpec> {
    (
        proptest::collection::vec(member_wide(), 1..4),
        prop_oneof![
            2 => Just(None),
            1 => Just(Some(vec![])),
            5 => proptest::collection::vec(member_wide(), 1..3).prop_map(Some),
        ],
    )
        .prop_map(|(members, settle)| sanitise_union(UnionSpec { members, settle }))
}

fn invalid_name() -> impl Strategy<Value = String> {
    let good = || builtin_name();
    prop_oneof![
        // unknown token alone or among valid ones, on either side of the pipe
        (good(), "[a-z]{3}", any::<bool>(), any::<bool>()).prop_filter_map("must be unknown", |(g, bad, first, pipe)| {
            if BUILTIN.contains(&bad.as_str()) {
                return None;
            }
            let sep = if pipe { "|" } else { "," };
            Some(if first { format!("{}{}{}", bad, sep, g) } else { format!("{}{}{}", g, sep, bad) })
        }),
        "[a-z]{1,6}".prop_filter("must be unknown", |s| !BUILTIN.contains(&s.as_str())),
        // empty tokens
        good().prop_map(|g| format!("{},", g)),
        good().prop_map(|g| format!(",{}", g)),
        (good(), good()).prop_map(|(a, b)| format!("{},,{}", a, b)),
        good().prop_map(|g| format!("{}|", g)),
        good().prop_map(|g| format!("|{}", g)),
        Just(String::new()),
        // stray spaces
        (good(), good()).prop_map(|(a, b)| format!("{}, {}", a, b)),
        good().prop_map(|g| format!(" {}", g)),
        // two or more pipes
        (good(), good(), good()).prop_map(|(a, b, c)| format!("{}|{}|{}", a, b, c)),
        (good(), good()).prop_map(|(a, b)| format!("{}||{}", a, b)),
        (good(), good(), good(), good()).prop_map(|(a, b, c, d)| format!("{},{}|{}|{}|", a, b, c, d)),
    ]
}

#[derive(Clone, Debug)]
enum Twist {
    Permute(u16),
    DuplicateMember(u16),
    SplitMember(u16, u16),
    MaskedHoliday(u16, i64),
    AddAll,
    SettleNoneVsEmpty,
    ExtraHoliday(u16, i64),
    ExtraSettleHoliday(u16, i64),
    DropHoliday(u16, u16),
    Identity,
    /// a masked weekday of one member is unmasked and every one of its dates in the range listed as
    /// a holiday instead (a calendar imported as a list of closed dates): same behaviour
    MaskAsHolidays(u16, bool),
}

fn twist() -> impl Strategy<Value = Twist> {
    // uniform days, the two ends of the range, year ends (day 365/366) and leap days, with the
    // century years 2000 / 2100 / 2200 singled out
    let day = || prop_oneof![
        6 => DAY_MIN..=day_max(),
        1 => Just(DAY_MIN),
        1 => Just(day_max()),
        1 => (1970i64..=2200).prop_map(|y| days_from_civil(y, 12, 31)),
        1 => (493i64..=549).prop_map(|q| days_from_civil(q * 4, 2, 29)),
        3 => prop::sample::select(vec![(2000i64, 12u32, 31u32), (2000, 12, 31), (2000, 12, 31), (2000, 2, 29), (2100, 12, 31), (2100, 2, 28), (2100, 3, 1), (2200, 2, 28), (2200, 1, 1), (1999, 12, 31), (2001, 1, 1)]).prop_map(|(y, m, d)| days_from_civil(y, m, d)),
    ];
    prop_oneof![
        1 => any::<u16>().prop_map(Twist::Permute),
        1 => any::<u16>().prop_map(Twist::DuplicateMember),
        1 => (any::<u16>(), any::<u16>()).prop_map(|(a, b)| Twist::SplitMember(a, b)),
        1 => (any::<u16>(), day()).prop_map(|(a, d)| Twist::MaskedHoliday(a, d)),
        1 => Just(Twist::AddAll),
        1 => Just(Twist::SettleNoneVsEmpty),
        3 => (any::<u16>(), day()).prop_map(|(a, d)| Twist::ExtraHoliday(a, d)),
        3 => (any::<u16>(), day()).prop_map(|(a, d)| Twist::ExtraSettleHoliday(a, d)),
        2 => (any::<u16>(), any::<u16>()).prop_map(|(a, b)| Twist::DropHoliday(a, b)),
        1 => Just(Twist::Identity),
        1 => (any::<u16>(), any::<bool>()).prop_map(|(a, settle)| Twist::MaskAsHolidays(a, settle)),
    ]
}

fn to_custom(m: &MemberSpec) -> CalSpec {
    match m {
        MemberSpec::Custom(c) => c.clone(),
        MemberSpec::Builtin(n) => {
            // explicit copy of a built-in calendar (structurally a different object)
            let cal = builtin_cal(n);
            let mask = if n == "all" { vec![] } else { vec![5, 6] };
            let mut hols = Vec::new();
            for z in DAY_MIN..=day_max() {
                if cal.is_holiday(&day_to_ndt(z)) {
                    hols.push(z);
                }
            }
            CalSpec { mask, hols }
        }
    }
}

fn apply_twist(u: &UnionSpec, t: &Twist) -> UnionSpec {
    let mut v = u.clone();
    match t {
        Twist::Identity => {}
        Twist::Permute(i) => {
            let k = pick(*i, v.members.len());
            v.members.rotate_left(k);
            v.members.reverse();
            if let Some(s) = &mut v.settle {
                s.reverse();
            }
        }
        Twist::DuplicateMember(i) => {
            let k = pick(*i, v.members.len());
            let m = v.members[k].clone();
            v.members.push(m);
        }
        Twist::SplitMember(i, j) => {
            let k = pick(*i, v.members.len());
            let c = to_custom(&v.members[k]);
            let cut = if c.hols.is_empty() { 0 } else { pick(*j, c.hols.len() + 1) };
            let a = CalSpec { mask: c.mask.clone(), hols: c.hols[..cut].to_vec() };
            let b = CalSpec { mask: c.mask.clone(), hols: c.hols[cut..].to_vec() };
            v.members[k] = MemberSpec::Custom(a);
            v.members.push(MemberSpec::Custom(b));
        }
        Twist::MaskedHoliday(i, d) => {
            // a holiday on a weekday that is masked anyway changes nothing
            let k = pick(*i, v.members.len());
            let mut c = to_custom(&v.members[k]);
            if let Some(wd) = c.mask.first().cloned() {
                let mut day = *d + (wd as i64 - weekday(*d) as i64).rem_euclid(7);
                if day > day_max() {
                    day -= 7;
                }
                c.hols.push(day);
            }
            v.members[k] = MemberSpec::Custom(c);
        }
        Twist::MaskAsHolidays(i, in_settle) => {
            let unmask = |m: &MemberSpec| -> MemberSpec {
                let mut c = to_custom(m);
                if let Some(wd) = c.mask.pop() {
                    let first = DAY_MIN + (wd as i64 - weekday(DAY_MIN) as i64).rem_euclid(7);
                    let mut z = first;
                    while z <= day_max() {
                        c.hols.push(z);
                        z += 7;
                    }
                }
                MemberSpec::Custom(c)
            };
            match (&mut v.settle, *in_settle) {
                (Some(s), true) if !s.is_empty() => {
                    let k = pick(*i, s.len());
                    s[k] = unmask(&s[k]);
                }
                _ => {
                    let k = pick(*i, v.members.len());
                    v.members[k] = unmask(&v.members[k]);
                }
            }
        }
        Twist::AddAll => v.members.push(MemberSpec::Builtin("all".into())),
        Twist::SettleNoneVsEmpty => {
            v.settle = match &v.settle {
                None => Some(vec![]),
                Some(s) if s.is_empty() => None,
                Some(s) => Some(s.clone()),
            }
        }
        Twist::ExtraHoliday(i, d) => {
            let k = pick(*i, v.members.len());
            let mut c = to_custom(&v.members[k]);
            c.hols.push(*d);
            v.members[k] = MemberSpec::Custom(c);
        }
        Twist::ExtraSettleHoliday(i, d) => {
            let mut s = v.settle.clone().unwrap_or_default();
            if s.is_empty() {
                s.push(MemberSpec::Custom(CalSpec { mask: vec![], hols: vec![*d] }));
            } else {
                let k = pick(*i, s.len());
                let mut c = to_custom(&s[k]);
                c.hols.push(*d);
                s[k] = MemberSpec::Custom(c);
            }
            v.settle = Some(s);
        }
        Twist::DropHoliday(i, j) => {
            let k = pick(*i, v.members.len());
            let mut c = to_custom(&v.members[k]);
            if !c.hols.is_empty() {
                let h = pick(*j, c.hols.len());
                c.hols.remove(h);
            }
            v.members[k] = MemberSpec::Custom(c);
        }
    }
    v
}

/// Explicit UnionSpec equivalent of a valid name string.
fn explicit_of_name(name: &str) -> UnionSpec {
    let lower = name.to_lowercase();
    let mut parts = lower.split('|');
    let members: Vec<MemberSpec> = parts.next().unwrap().split(',').map(|n| MemberSpec::Builtin(n.to_string())).collect();
    let settle = parts.next().map(|s| s.split(',').map(|n| MemberSpec::Builtin(n.to_string())).collect());
    UnionSpec { members, settle }
}

fn equality_pair() -> impl Strategy<Value = (AnyCal, AnyCal)> {
    prop_oneof![
        // a combination against a twisted copy of itself
        5 => (union_wide(), twist(), any::<bool>()).prop_map(|(u, t, swap)| {
            let b = apply_twist(&u, &t);
            let (a, b) = (AnyCal::Union(u), AnyCal::Union(b));
            if swap { (b, a) } else { (a, b) }
        }),
        // a plain calendar against the single-member combination of (a twist of) itself
        2 => (cal_spec_wide(), twist(), any::<bool>()).prop_map(|(c, t, swap)| {
            let u = UnionSpec { members: vec![MemberSpec::Custom(c.clone())], settle: None };
            let t = match t { Twist::ExtraSettleHoliday(a, d) => Twist::ExtraHoliday(a, d), o => o };
            let b = AnyCal::Union(apply_twist(&u, &t));
            let a = AnyCal::Cal(c);
            if swap { (b, a) } else { (a, b) }
        }),
        // a named calendar against the explicit combination of its parts (possibly twisted)
        3 => (named_string(), twist(), any::<bool>()).prop_map(|(n, t, swap)| {
            let b = AnyCal::Union(apply_twist(&explicit_of_name(&n), &t));
            let a = AnyCal::Named(n);
            if swap { (b, a) } else { (a, b) }
        }),
        // two named calendars (same parts in another order / case, or different)
        2 => (named_string(), named_string(), any::<bool>()).prop_map(|(n, m, same)| {
            if same {
                let e = explicit_of_name(&n);
                let mut members: Vec<String> = e.members.iter().map(|m| match m { MemberSpec::Builtin(s) => s.clone(), _ => unreachable!() }).collect();
                members.reverse();
                let mut s = members.join(",").to_uppercase();
                if let Some(st) = e.settle {
                    let st: Vec<String> = st.iter().map(|m| match m { MemberSpec::Builtin(s) => s.clone(), _ => unreachable!() }).collect();
                    s.push('|');
                    s.push_str(&st.join(","));
                }
                (AnyCal::Named(n), AnyCal::Named(s))
            } else {
                (AnyCal::Named(n), AnyCal::Named(m))
            }
        }),
        // a named single calendar against the plain built-in one
        1 => (builtin_name(), any::<bool>()).prop_map(|(n, swap)| {
            let c = AnyCal::Cal(to_custom(&MemberSpec::Builtin(n.clone())));
            let a = AnyCal::Named(n);
            if swap { (c, a) } else { (a, c) }
        }),
    ]
}

fn case_strategy() -> impl Strategy<Value = Case> {
    prop_oneof![
        3 => union_wide().prop_map(|spec| Case::Union { spec }),
        2 => named_string().prop_map(|name| Case::Named { name }),
        2 => invalid_name().prop_map(|name| Case::Invalid { name }),
        4 => equality_pair().prop_map(|(a, b)| Case::Equality { a, b }),
    ]
}

struct FastCal {
    mask: [bool; 7],
    hols: HashSet<i64>,
}
impl FastCal {
    fn of(m: &MemberSpec) -> FastCal {
        let c = to_custom(m);
        let mut mask = [false; 7];
        c.mask.iter().for_each(|d| mask[*d as usize] = true);
        FastCal { mask, hols: c.hols.into_iter().collect() }
    }
    fn bus(&self, z: i64) -> bool {
        !self.mask[weekday(z) as usize] && !self.hols.contains(&z)
    }
}

/// library `==` for whichever pairing of kinds has an implementation
fn lib_eq(a: &CalType, b: &CalType) -> Option<bool> {
    Some(match (a, b) {
        (CalType::UnionCal(x), CalType::Cal(y)) => x == y,
        (CalType::UnionCal(x), CalType::UnionCal(y)) => x == y,
        (CalType::UnionCal(x), CalType::NamedCal(y)) => x == y,
        (CalType::NamedCal(x), CalType::Cal(y)) => x == y,
        (CalType::NamedCal(x), CalType::UnionCal(y)) => x == y,
        (CalType::NamedCal(x), CalType::NamedCal(y)) => x == y,
        (CalType::Cal(x), CalType::UnionCal(y)) => x == y,
        (CalType::Cal(x), CalType::NamedCal(y)) => x == y,
        (CalType::Cal(_), CalType::Cal(_)) => return None,
    })
}

impl Property for C06 {
    type Case = Case;
    fn id(&self) -> &'static str {
        "C06"
    }

    fn check(&self, c: &Case) -> Verdict {
        let mut v = Verdict::new();
        match c {
            Case::Union { spec } => {
                v.label("kind:union");
                let members: Vec<FastCal> = spec.members.iter().map(FastCal::of).collect();
                let settle: Option<Vec<FastCal>> = spec.settle.as_ref().map(|s| s.iter().map(FastCal::of).collect());
                v.nt(spec.members.len() >= 2 || settle.as_ref().map_or(false, |s| !s.is_empty()));
                v.label_if(settle.as_ref().map_or(false, |s| !s.is_empty()), "union:with-settlement");
                v.label_if(matches!(&spec.settle, Some(s) if s.is_empty()), "union:empty-settlement-list");
                let u = match catch(|| spec.build()) {
                    Ok(u) => u,
                    Err(p) => {
                        v.fail(format!("UnionCal::new | panic | {}", p.site()), p.message);
                        return v;
                    }
                };
                for z in DAY_MIN..=day_max() {
                    let d = day_to_ndt(z);
                    let exp_bus = members.iter().all(|m| m.bus(z));
                    let exp_set = settle.as_ref().map_or(true, |s| s.iter().all(|m| m.bus(z)));
                    let (gb, gs) = (u.is_bus_day(&d), u.is_settlement(&d));
                    if gb != exp_bus {
                        v.fail("union | business day is not 'business day in every member'", format!("{}: is_bus_day = {}, members say {}", fmt_day(z), gb, exp_bus));
                        return v;
                    }
                    if gs != exp_set {
                        v.fail("union | settlement day is not 'business day in every settlement calendar'", format!("{}: is_settlement = {}, settlement calendars say {}", fmt_day(z), gs, exp_set));
                        return v;
                    }
                    if u.is_non_bus_day(&d) == gb {
                        v.fail("union | is_non_bus_day is not the negation of is_bus_day", fmt_day(z));
                        return v;
                    }
                }
            }
            Case::Named { name } => {
                v.label("kind:named");
                v.label_if(name.split('|').any(|h| { let mut c: Vec<String> = h.split(',').map(|x| x.to_lowercase()).collect(); c.sort(); c.dedup(); c.len() > 8 }), "named:>8-distinct-codes-in-a-section");
                v.label_if(name.contains('|'), "named:with-settlement");
                v.label_if(name.chars().any(|c| c.is_ascii_uppercase()), "named:mixed-case");
                v.nt(name.contains(',') || name.contains('|'));
                let named = match catch(|| NamedCal::try_new(name)) {
                    Ok(Ok(n)) => n,
                    Ok(Err(_)) => {
                        v.fail("named | valid name rejected", format!("NamedCal::try_new(\"{}\") returned an error", name));
                        return v;
                    }
                    Err(p) => {
                        v.fail(format!("named | panic | {}", p.site()), p.message);
                        return v;
                    }
                };
                // the explicit combination, built from parts looked up by (lower-cased) name
                let e = explicit_of_name(name);
                let look = |m: &MemberSpec| match m {
                    MemberSpec::Builtin(n) => get_calendar_by_name(n).expect("builtin"),
                    _ => unreachable!(),
                };
                let explicit = UnionCal::new(
                    e.members.iter().map(look).collect(),
                    e.settle.as_ref().map(|s| s.iter().map(look).collect()),
                );
                let members: Vec<Cal> = e.members.iter().map(look).collect();
                let settle: Option<Vec<Cal>> = e.settle.as_ref().map(|s| s.iter().map(look).collect());
                for z in DAY_MIN..=day_max() {
                    let d = day_to_ndt(z);
                    let exp_bus = members.iter().all(|m| m.is_bus_day(&d));
                    let exp_set = settle.as_ref().map_or(true, |s| s.iter().all(|m| m.is_bus_day(&d)));
                    if named.is_bus_day(&d) != explicit.is_bus_day(&d)
                        || named.is_settlement(&d) != explicit.is_settlement(&d)
                        || named.is_bus_day(&d) != exp_bus
                        || named.is_settlement(&d) != exp_set
                    {
                        v.fail(
                            "named | differs from the explicit combination of its parts",
                            format!("\"{}\" on {}: named (bus {}, settle {}), explicit combination (bus {}, settle {}), parts (bus {}, settle {})",
                                name, fmt_day(z), named.is_bus_day(&d), named.is_settlement(&d), explicit.is_bus_day(&d), explicit.is_settlement(&d), exp_bus, exp_set),
                        );
                        return v;
                    }
                }
            }
            Case::Invalid { name } => {
                v.label("kind:invalid-name");
                v.nt(true);
                v.label(if name.matches('|').count() >= 2 { "invalid:pipes" } else if name.contains(' ') { "invalid:space" } else if name.is_empty() || name.contains(",,") || name.starts_with(',') || name.ends_with(',') || name.starts_with('|') || name.ends_with('|') { "invalid:empty-token" } else { "invalid:unknown-name" });
                match catch(|| NamedCal::try_new(name)) {
                    Ok(Err(_)) => {}
                    Ok(Ok(_)) => v.fail("named | invalid name accepted", format!("NamedCal::try_new(\"{}\") returned a calendar", name)),
                    Err(p) => v.fail(format!("named | panic on invalid name | {}", p.site()), format!("\"{}\": {}", name, p.message)),
                }
            }
            Case::Equality { a, b } => {
                v.label("kind:equality");
                let (ca, cb) = match catch(|| (a.build(), b.build())) {
                    Ok(x) => x,
                    Err(p) => {
                        v.fail(format!("equality | panic building | {}", p.site()), p.message);
                        return v;
                    }
                };
                // the harness's own full-range behavioural comparison
                let mut first_diff: Option<i64> = None;
                for z in DAY_MIN..=day_max() {
                    let d = day_to_ndt(z);
                    if ca.is_bus_day(&d) != cb.is_bus_day(&d) || ca.is_settlement(&d) != cb.is_settlement(&d) {
                        first_diff = Some(z);
                        break;
                    }
                }
                let expected = first_diff.is_none();
                v.label(if expected { "equality:equal" } else { "equality:unequal" });
                v.label(intern(format!("equality:{}=={}", a.kind().trim_start_matches("cal:").split('+').next().unwrap(), b.kind().trim_start_matches("cal:").split('+').next().unwrap())));
                v.nt(serde_json::to_string(a).ok() != serde_json::to_string(b).ok());
                // equal behaviour although a weekday is a working day by the mask on one side only
                // (its dates are then all listed as holidays there)
                let first_week_differs = (DAY_MIN..DAY_MIN + 7).any(|z| ca.is_weekday(&day_to_ndt(z)) != cb.is_weekday(&day_to_ndt(z)));
                v.label_if(expected && first_week_differs, "equality:equal-with-different-week-masks");
                for (x, y, dir) in [(&ca, &cb, "a==b"), (&cb, &ca, "b==a")] {
                    match catch(|| lib_eq(x, y)) {
                        Ok(None) => {}
                        Ok(Some(got)) => {
                            if got != expected {
                                v.fail(
                                    format!("equality | {} | {}", if expected { "behaviourally equal calendars compare unequal" } else { "different calendars compare equal" }, dir),
                                    format!("{} returned {}; first differing date: {}", dir, got, first_diff.map_or("none".to_string(), fmt_day)),
                                );
                                return v;
                            }
                        }
                        Err(p) => {
                            v.fail(format!("equality | panic | {}", p.site()), p.message);
                            return v;
                        }
                    }
                }
            }
        }
        v
    }

    fn plan(&self, tier: Tier) -> Vec<Stage<Case>> {
        vec![Stage::random("random", tier.pick(4_000, 200_000), case_strategy)]
    }

    fn rule(&self) -> String {
        "random (combination spec | valid name string | invalid string | equality pair). Combinations: 1-3 members and None / empty / 1-2 settlement calendars, members arbitrary (any week mask, holidays anywhere in 1970-2200 incl. its first and last day, clustered runs) or built-in; every case is compared on EVERY date 1970-01-01..2200-12-31 with the all/any model of its parts. Names: 1-3 built-in names (now and then 9-13), optional '|' + 1-2 names (or 9-13), random letter case; invalid strings: unknown token, empty token, stray space, >= 2 pipes. Equality pairs are constructed behaviourally equal but structurally different (members permuted / duplicated / split, holiday on a masked weekday, a masked weekday replaced by the list of all its dates as holidays, 'all' added, None vs empty settlement list, named vs explicit) or different on a single date (extra / dropped holiday, also only in a settlement calendar, also on the first/last day of the range, on year ends, leap days and the century years); expected value = the harness's own full-range comparison of business and settlement days. Non-trivial: >= 2 members or a settlement list; a multi-part name; any invalid string; structurally different equality operands.".into()
    }

    fn floors(&self, tier: Tier) -> Vec<Floor> {
        let n = tier.pick(4_000u64, 200_000);
        vec![
            Floor { label: "equality:equal", min: n / 10 },
            Floor { label: "equality:equal-with-different-week-masks", min: n / 500 },
            Floor { label: "named:>8-distinct-codes-in-a-section", min: n / 1000 },
            Floor { label: "equality:unequal", min: n / 20 },
            Floor { label: "union:with-settlement", min: n / 10 },
            Floor { label: "named:with-settlement", min: n / 20 },
            Floor { label: "invalid:pipes", min: n / 80 },
            Floor { label: "invalid:unknown-name", min: n / 80 },
            Floor { label: "invalid:empty-token", min: n / 80 },
        ]
    }

    fn assumptions(&self) -> Vec<String> {
        vec![
            "the plain calendar's own is_weekday/is_holiday are checked against the spec (mask + holiday list) for arbitrary members; for built-in members the built-in plain calendar is the part (its content is C07's subject)".into(),
        ]
    }
}
