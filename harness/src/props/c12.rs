//! C12 - Curve values carry exact sensitivities to their nodes at every derivative order.

use crate::engine::*;
use crate::model::interp::*;
use crate::props::c11::*;
use crate::util::*;
use indexmap::IndexMap;
use proptest::prelude::*;
use rateslib::calendars::{CalType, Convention, Modifier};
use rateslib::curves::Nodes;
use rateslib::dual::{ADOrder, Dual, Dual2, Gradient1, Gradient2, Number, Vars};
use rateslib::verif_hooks::VCurve;
use serde::{Deserialize, Serialize};
use std::collections::BTreeMap;

/// custom derivative content of a node given as a dual number: (name index, coefficient)
pub type Own = Vec<(u8, Fl)>;

#[derive(Clone, Debug, Serialize, Deserialize)]
pub struct Case {
    pub rule: u8,
    /// "c", "curve_", "x1", "": the i-th node of a float curve is tagged id + i
    pub id: String,
    /// (timestamp, value, custom dual content) in supply order
    pub nodes: Vec<(i64, Fl, Option<Own>)>,
    /// 0 = all floats, 1 = first-order nodes with custom names, 2 = second-order nodes
    pub node_kind: u8,
    pub index_base: Option<Fl>,
    /// use the Python-facing constructor (takes unsorted nodes of any kind plus an initial order)
    pub via_hook: bool,
    pub initial_order: u8,
    pub switches: Vec<u8>,
    pub queries: Vec<i64>,
}

pub struct C12;

fn own_name(i: u8) -> String {
    format!("p{}", i % 5)
}

fn order_of(k: u8) -> ADOrder {
    match k % 3 {
        0 => ADOrder::Zero,
        1 => ADOrder::One,
        _ => ADOrder::Two,
    }
}

fn own_map(own: &Option<Own>) -> BTreeMap<String, f64> {
    let mut m = BTreeMap::new();
    if let Some(o) = own {
        for (n, c) in o {
            m.entry(own_name(*n)).or_insert(c.0);
        }
    }
    m
}

fn node_number(kind: u8, value: f64, own: &Option<Own>) -> Number {
    let m = own_map(own);
    let names: Vec<String> = m.keys().cloned().collect();
    let coefs: Vec<f64> = m.values().cloned().collect();
    match kind % 3 {
        0 => Number::F64(value),
        1 => Number::Dual(if names.is_empty() { Dual::new(value, vec![]) } else { Dual::try_new(value, names, coefs).expect("node") }),
        _ => Number::Dual2(if names.is_empty() { Dual2::new(value, vec![]) } else { Dual2::try_new(value, names, coefs, vec![]).expect("node") }),
    }
}

/// How the nodes are currently tagged in the model.
#[derive(Clone, Debug, PartialEq)]
enum Tags {
    /// floats: no derivative information
    None,
    /// node i (date order) carries exactly the variable id+i with unit sensitivity
    ById,
    /// nodes carry their custom content (floats among them were tagged id+i on entry)
    Custom(Vec<BTreeMap<String, f64>>),
}

enum Built {
    Generic(AnyCurve),
    Hook(VCurve),
}

impl Built {
    fn value(&self, d: &chrono::NaiveDateTime) -> Number {
        match self {
            Built::Generic(c) => c.value(d),
            Built::Hook(c) => c.get(d),
        }
    }
    fn set(&mut self, ad: ADOrder) -> Result<(), pyo3::PyErr> {
        match self {
            Built::Generic(c) => c.set_ad_order(ad),
            Built::Hook(c) => c.set_ad_order(ad),
        }
    }
    fn ad(&self) -> ADOrder {
        match self {
            Built::Generic(c) => c.ad(),
            Built::Hook(c) => c.ad(),
        }
    }
    fn index_value(&self, d: &chrono::NaiveDateTime) -> Result<Number, pyo3::PyErr> {
        match self {
            Built::Generic(c) => c.index_value(d),
            Built::Hook(c) => c.index_value(d),
        }
    }
}

fn case_strategy() -> impl Strategy<Value = Case> {
    let own = || proptest::option::weighted(0.8, proptest::collection::vec((0u8..5, coeff()), 0..3));
    (
        0u8..5,
        prop::sample::select(vec!["c", "curve_", "x1", "v", "p", "p"]), // "p": the curve's own tags p0, p1, .. then coincide with the custom names
        node_set(),
        proptest::collection::vec(own(), 12),
        prop_oneof![3 => Just(0u8), 1 => Just(1u8), 1 => Just(2u8)],
        proptest::option::weighted(0.5, log_uniform(50.0, 400.0)),
        any::<bool>(),
        0u8..3,
        proptest::collection::vec(0u8..3, 0..7),
        proptest::collection::vec(query_spec(), 1..6),
    )
        .prop_map(|(rule, id, nodes, owns, node_kind, index_base, via_hook, initial_order, switches, qs)| {
            let plain: Vec<(i64, Fl)> = nodes.clone();
            let queries = resolve_queries(&plain, &qs);
            let nodes = nodes.into_iter().enumerate().map(|(i, (t, y))| (t, y, if node_kind == 0 { None } else { owns[i].clone() })).collect();
            Case { rule, id: id.to_string(), nodes, node_kind, index_base, via_hook, initial_order, switches, queries }
        })
}

impl Property for C12 {
    type Case = Case;
    fn id(&self) -> &'static str {
        "C12"
    }

    fn check(&self, c: &Case) -> Verdict {
        let mut v = Verdict::new();
        let rule = rule_of(c.rule);
        v.label(intern(format!("rule:{}", rule.name())));
        let mut sorted = c.nodes.clone();
        sorted.sort_by_key(|x| x.0);
        let times: Vec<i64> = sorted.iter().map(|x| x.0).collect();
        let values: Vec<f64> = sorted.iter().map(|x| x.1 .0).collect();
        let n = times.len();
        let unsorted_input = c.nodes.iter().map(|x| x.0).collect::<Vec<_>>() != times;
        v.label_if(unsorted_input, "supply:unsorted");
        v.label(if c.via_hook { "constructor:python-facing" } else { "constructor:generic" });
        v.label(intern(format!("nodes:kind{}", c.node_kind % 3)));
        v.label_if(c.id == "p" && c.node_kind % 3 != 0, "names:custom-coincide-with-own-tags");
        let id_names: Vec<String> = (0..n).map(|i| format!("{}{}", c.id, i)).collect();
        let mut all_names = id_names.clone();
        for nm in (0..5).map(own_name) {
            // (with the id "p" the curve's own tags p0, p1, .. coincide with custom names: the request
            // stays a list of distinct names)
            if !all_names.contains(&nm) {
                all_names.push(nm);
            }
        }

        // ---- build, and the model's idea of the initial tagging
        let kind = c.node_kind % 3;
        let (mut curve, mut tags, mut order): (Built, Tags, u8) = if c.via_hook {
            let map: IndexMap<chrono::NaiveDateTime, Number> = c.nodes.iter().map(|(t, y, o)| (secs_to_ndt(*t), node_number(kind, y.0, o))).collect();
            let built = catch(|| VCurve::new(map, vinterp_of(rule), order_of(c.initial_order), &c.id, Convention::Act360, Modifier::ModF, CalType::Cal(plain_cal()), c.index_base.map(|b| b.0)));
            let cv = match built {
                Ok(Ok(cv)) => cv,
                Ok(Err(_)) => {
                    v.fail("python-facing constructor returned an error", format!("{:?}", c));
                    return v;
                }
                Err(p) => {
                    v.fail(format!("python-facing constructor | panic | {}", p.site()), p.message);
                    return v;
                }
            };
            let o = c.initial_order % 3;
            let tags = if o == 0 {
                Tags::None
            } else if kind == 0 {
                Tags::ById
            } else {
                Tags::Custom(sorted.iter().map(|x| own_map(&x.2)).collect())
            };
            (Built::Hook(cv), tags, o)
        } else {
            let nodes = match kind {
                0 => Nodes::F64(c.nodes.iter().map(|(t, y, _)| (secs_to_ndt(*t), y.0)).collect()),
                1 => Nodes::Dual(c.nodes.iter().map(|(t, y, o)| (secs_to_ndt(*t), Dual::from(node_number(1, y.0, o)))).collect()),
                _ => Nodes::Dual2(c.nodes.iter().map(|(t, y, o)| (secs_to_ndt(*t), Dual2::from(node_number(2, y.0, o)))).collect()),
            };
            let cv = match catch(|| AnyCurve::new(rule, nodes, &c.id, c.index_base.map(|b| b.0))) {
                Ok(cv) => cv,
                Err(p) => {
                    v.fail(format!("generic constructor | panic | {}", p.site()), p.message);
                    return v;
                }
            };
            let tags = if kind == 0 { Tags::None } else { Tags::Custom(sorted.iter().map(|x| own_map(&x.2)).collect()) };
            (Built::Generic(cv), tags, kind)
        };

        let mut transitions = 0;
        let steps: Vec<Option<u8>> = std::iter::once(None).chain(c.switches.iter().map(|s| Some(*s % 3))).collect();
        for (si, step) in steps.iter().enumerate() {
            if let Some(to) = step {
                v.label(intern(format!("transition:{}->{}", order, to)));
                transitions += 1;
                match catch(|| curve.set(order_of(*to))) {
                    Ok(Ok(())) => {}
                    Ok(Err(_)) => {
                        v.fail("set_ad_order returned an error", format!("step {}", si));
                        return v;
                    }
                    Err(p) => {
                        v.fail(format!("set_ad_order | panic | {}", p.site()), p.message);
                        return v;
                    }
                }
                // model transition
                tags = match (*to, &tags) {
                    (0, _) => Tags::None,
                    (_, Tags::None) => Tags::ById,
                    (_, t) => t.clone(),
                };
                order = *to;
            }
            let step_name = match step {
                None => "after construction".to_string(),
                Some(t) => format!("after switch {} (to order {})", si, t),
            };
            if curve.ad() != order_of(order) {
                v.fail("ad() does not report the order switched to", format!("{}: expected {}", step_name, order));
                return v;
            }
            for x in &c.queries {
                let date = secs_to_ndt(*x);
                let m = evaluate(rule, &times, &values, *x);
                let strictly_between = !times.contains(x) && *x > times[0] && *x < times[n - 1];
                v.nt(transitions >= 2 && n >= 3 && strictly_between);
                let got = match catch(|| curve.value(&date)) {
                    Ok(g) => g,
                    Err(p) => {
                        v.fail(format!("look-up | panic | {}", p.site()), p.message);
                        return v;
                    }
                };
                // (1) values never change
                let gv = f64::from(&got);
                if !close(gv, m.value, 1e-12 * m.cond, 0.0) {
                    v.fail("a looked-up value changed with the derivative order", format!("{} ({}): {} at {} = {:e}, float curve {:e}", step_name, rule.name(), c.id, x, gv, m.value));
                    return v;
                }
                let got_kind = match &got {
                    Number::F64(_) => 0,
                    Number::Dual(_) => 1,
                    Number::Dual2(_) => 2,
                };
                if got_kind != order {
                    v.fail("looked-up value is not a number of the curve's order", format!("{}: order {}, value kind {}", step_name, order, got_kind));
                    return v;
                }
                // absurd extrapolations (values beyond 1e+-30) run into overflow/underflow of the
                // derivative formulas; only the value law is checked there
                if !(m.value.abs() > 1e-30 && m.value.abs() < 1e30) {
                    v.label("skipped-derivatives:extreme-extrapolation");
                    continue;
                }
                // (2) sensitivities by name
                let node_grad = |k: usize| -> BTreeMap<String, f64> {
                    match &tags {
                        Tags::None => BTreeMap::new(),
                        Tags::ById => [(id_names[k].clone(), 1.0)].into_iter().collect(),
                        Tags::Custom(v) => v[k].clone(),
                    }
                };
                let (l, r) = (m.index, m.index + 1);
                let (gl, gr) = (node_grad(l), node_grad(r));
                let mut exp_g: BTreeMap<String, f64> = BTreeMap::new();
                for (name, cf) in &gl {
                    *exp_g.entry(name.clone()).or_insert(0.0) += m.d1[0] * cf;
                }
                for (name, cf) in &gr {
                    *exp_g.entry(name.clone()).or_insert(0.0) += m.d1[1] * cf;
                }
                let mut exp_h: BTreeMap<(String, String), f64> = BTreeMap::new();
                for (a, ga) in [(0usize, &gl), (1, &gr)] {
                    for (b, gb) in [(0usize, &gl), (1, &gr)] {
                        for (n1, c1) in ga.iter() {
                            for (n2, c2) in gb.iter() {
                                *exp_h.entry((n1.clone(), n2.clone())).or_insert(0.0) += m.d2[a][b] * c1 * c2;
                            }
                        }
                    }
                }
                let gscale = (m.d1[0].abs() + m.d1[1].abs()) * m.cond * gl.values().chain(gr.values()).fold(1.0f64, |a, b| a.max(b.abs()));
                let hscale = m.d2.iter().flatten().fold(0.0f64, |a, b| a + b.abs()) * m.cond * m.cond * gl.values().chain(gr.values()).fold(1.0f64, |a, b| a.max(b.abs())).powi(2) + gscale * m.cond;
                let check_grad = |v: &mut Verdict, what: &str, g: &[f64], exp: &BTreeMap<String, f64>, scale: f64| -> bool {
                    for (k, nm) in all_names.iter().enumerate() {
                        let e = *exp.get(nm).unwrap_or(&0.0);
                        if !((g[k] - e).abs() <= 1e-10 * scale + 1e-300) {
                            v.fail(
                                format!("{} | {}", what, if e == 0.0 { "sensitivity reported to a node outside the interval in use or under a wrong name" } else { "sensitivity differs from the derivative of the interpolation formula" }),
                                format!("{} ({}): nodes {:?} values {:?} id '{}', query {} (interval {}): d/d{} = {:e}, expected {:e}", step_name, rule.name(), times, values, c.id, x, m.index, nm, g[k], e),
                            );
                            return false;
                        }
                    }
                    true
                };
                match &got {
                    Number::F64(_) => {}
                    Number::Dual(d) => {
                        v.label("gradient:checked");
                        let g = d.gradient1(all_names.clone()).to_vec();
                        if !check_grad(&mut v, "gradient", &g, &exp_g, gscale) {
                            return v;
                        }
                        if let Some(bad) = d.vars().iter().find(|nm| !all_names.contains(nm)) {
                            v.fail("value carries an unexpected variable name", bad.clone());
                            return v;
                        }
                    }
                    Number::Dual2(d) => {
                        v.label("gradient:checked");
                        v.label("hessian:checked");
                        let g = d.gradient1(all_names.clone()).to_vec();
                        if !check_grad(&mut v, "gradient", &g, &exp_g, gscale) {
                            return v;
                        }
                        if let Some(bad) = d.vars().iter().find(|nm| !all_names.contains(nm)) {
                            v.fail("value carries an unexpected variable name", bad.clone());
                            return v;
                        }
                        let h = d.gradient2(all_names.clone());
                        for (k1, n1) in all_names.iter().enumerate() {
                            for (k2, n2) in all_names.iter().enumerate() {
                                let e = *exp_h.get(&(n1.clone(), n2.clone())).unwrap_or(&0.0);
                                if !((h[[k1, k2]] - e).abs() <= 1e-10 * hscale + 1e-300) {
                                    v.fail(
                                        "hessian differs from the second derivatives of the interpolation formula",
                                        format!("{} ({}): nodes {:?} values {:?}, query {}: d2/d{}d{} = {:e}, expected {:e}", step_name, rule.name(), times, values, x, n1, n2, h[[k1, k2]], e),
                                    );
                                    return v;
                                }
                            }
                        }
                    }
                }
                // (3) index value
                match (c.index_base, catch(|| curve.index_value(&date))) {
                    (_, Err(p)) => {
                        v.fail(format!("index_value | panic | {}", p.site()), p.message);
                        return v;
                    }
                    (None, Ok(r)) => {
                        if r.is_ok() {
                            v.fail("index_value without an index base is not an error", "".to_string());
                            return v;
                        }
                    }
                    (Some(b), Ok(r)) => {
                        v.label("index_value:checked");
                        let iv = match r {
                            Ok(iv) => iv,
                            Err(_) => {
                                v.fail("index_value returned an error although the curve has an index base", "".to_string());
                                return v;
                            }
                        };
                        if *x < times[0] {
                            v.label("index_value:before-first-node");
                            if !matches!(iv, Number::F64(z) if z == 0.0) {
                                v.fail("index value before the first node is not zero", format!("{:e}", f64::from(&iv)));
                                return v;
                            }
                        } else {
                            let expv = b.0 / m.value;
                            if !close(f64::from(&iv), expv, 1e-12 * m.cond, 0.0) {
                                v.fail("index value is not base / curve value", format!("{}: base {:e}, value {:e}: index value {:e}", step_name, b.0, m.value, f64::from(&iv)));
                                return v;
                            }
                            let ik = match &iv {
                                Number::F64(_) => 0,
                                Number::Dual(_) => 1,
                                Number::Dual2(_) => 2,
                            };
                            if ik != order {
                                v.fail("index value is not a number of the curve's order", format!("order {}, kind {}", order, ik));
                                return v;
                            }
                            // gradient of b / V = -b / V^2 * dV
                            let ig: Option<Vec<f64>> = match &iv {
                                Number::F64(_) => None,
                                Number::Dual(d) => Some(d.gradient1(all_names.clone()).to_vec()),
                                Number::Dual2(d) => Some(d.gradient1(all_names.clone()).to_vec()),
                            };
                            if let Some(ig) = ig {
                                let f = -b.0 / (m.value * m.value);
                                let exp_ig: BTreeMap<String, f64> = exp_g.iter().map(|(k, g)| (k.clone(), f * g)).collect();
                                if !check_grad(&mut v, "index value gradient", &ig, &exp_ig, gscale * f.abs()) {
                                    return v;
                                }
                            }
                        }
                    }
                }
            }
        }
        v
    }

    fn plan(&self, tier: Tier) -> Vec<Stage<Case>> {
        vec![Stage::random("histories", tier.pick(300_000, 6_000_000), case_strategy)]
    }

    fn rule(&self) -> String {
        "random (rule, curve id, node set as in C11 supplied in shuffled order, node kind: floats / first-order / second-order numbers with custom variable names (which, for a third of the curves, coincide with the curve's own tags id+i), optional index base, constructor: generic or Python-facing with an initial order, history of 0-6 order switches over {0,1,2}, 1-5 query dates). A model tracks how the nodes are tagged (none / id+i in date order / custom names) through every transition. After construction and after every switch, for every query: the value equals the float curve's closed form; the number returned is of the curve's order; its gradient read BY NAME over [id0..id(n-1), all custom names] equals the closed-form partials combined by the chain rule (zero for nodes outside the interval in use), at order 2 the Hessian equals the closed-form second partials; ad() reports the order; index_value is base/value of the curve's order with matching gradient, zero before the first node, an error without a base. Non-trivial: >= 2 switches and a query strictly between nodes of a >= 3-node curve.".into()
    }

    fn floors(&self, tier: Tier) -> Vec<Floor> {
        let n = tier.pick(300_000u64, 6_000_000);
        let mut f: Vec<Floor> = Vec::new();
        for a in 0..3 {
            for b in 0..3 {
                f.push(Floor { label: intern(format!("transition:{}->{}", a, b)), min: n / 30 });
            }
        }
        f.push(Floor { label: "supply:unsorted", min: n / 4 });
        f.push(Floor { label: "names:custom-coincide-with-own-tags", min: n / 20 });
        f.push(Floor { label: "constructor:python-facing", min: n / 4 });
        f.push(Floor { label: "hessian:checked", min: n / 4 });
        f.push(Floor { label: "index_value:before-first-node", min: n / 50 });
        f.push(Floor { label: "nodes:kind1", min: n / 10 });
        f.push(Floor { label: "nodes:kind2", min: n / 10 });
        f
    }

    fn assumptions(&self) -> Vec<String> {
        vec![
            "tolerances scale with the conditioning factor of the rule at the query point (C11)".into(),
            "custom second-order nodes carry no second-order content of their own".into(),
        ]
    }
}
