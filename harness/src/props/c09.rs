//! C09 - An FX market built from n-1 quotes is complete and arbitrage-free.

use crate::engine::*;
use crate::util::*;
use proptest::prelude::*;
use rateslib::dual::Number;
use rateslib::fx::rates::{Ccy, FXRate, FXRates};
use serde::{Deserialize, Serialize};

pub const CCYS: [&str; 12] = ["usd", "eur", "gbp", "jpy", "chf", "cad", "aud", "nzd", "sek", "nok", "inr", "cny"];

#[derive(Clone, Debug, Serialize, Deserialize, PartialEq)]
pub struct Quote {
    pub lhs: u8,
    pub rhs: u8,
    pub rate: Fl,
    /// settlement date as a day number
    pub settle: Option<i64>,
}

#[derive(Clone, Debug, Serialize, Deserialize)]
pub struct Case {
    pub quotes: Vec<Quote>,
    pub base: Option<u8>,
    /// rotation used to build the reshuffled twin market, and its base
    pub twin_rot: u8,
    /// index (mapped onto the market's currencies) of the twin's base
    pub twin_base: Option<u16>,
}

pub struct C09;

pub fn ccy(i: u8) -> Ccy {
    Ccy::try_new(CCYS[i as usize % 12]).expect("currency")
}

pub fn fx_rate(q: &Quote, rate: Number) -> FXRate {
    FXRate::try_new(CCYS[q.lhs as usize % 12], CCYS[q.rhs as usize % 12], rate, q.settle.map(day_to_ndt)).expect("fx rate")
}

pub fn build(quotes: &[Quote], base: Option<u8>) -> Result<FXRates, pyo3::PyErr> {
    FXRates::try_new(quotes.iter().map(|q| fx_rate(q, Number::F64(q.rate.0))).collect(), base.map(ccy))
}

/// The model's verdict: do the quotes (plus the base) form a spanning tree with one common
/// settlement date? Also returns the currency order the library will use (base first, then by
/// first appearance).
pub fn model_valid(quotes: &[Quote], base: Option<u8>) -> (bool, Vec<u8>, &'static str) {
    let mut nodes: Vec<u8> = Vec::new();
    if let Some(b) = base {
        nodes.push(b % 12);
    }
    for q in quotes {
        for c in [q.lhs % 12, q.rhs % 12] {
            if !nodes.contains(&c) {
                nodes.push(c);
            }
        }
    }
    if quotes.is_empty() {
        return (false, nodes, "invalid:empty");
    }
    let s0 = quotes[0].settle;
    if quotes.iter().any(|q| q.settle != s0) {
        return (false, nodes, "invalid:settlement-mix");
    }
    if nodes.len() > quotes.len() + 1 {
        return (false, nodes, "invalid:under-specified");
    }
    if nodes.len() < quotes.len() + 1 {
        return (false, nodes, "invalid:over-specified");
    }
    // union-find
    let mut parent: Vec<usize> = (0..nodes.len()).collect();
    fn find(p: &mut Vec<usize>, x: usize) -> usize {
        if p[x] != x {
            let r = find(p, p[x]);
            p[x] = r;
        }
        p[x]
    }
    for q in quotes {
        let a = nodes.iter().position(|n| *n == q.lhs % 12).unwrap();
        let b = nodes.iter().position(|n| *n == q.rhs % 12).unwrap();
        let (ra, rb) = (find(&mut parent, a), find(&mut parent, b));
        if ra == rb {
            return (false, nodes, "invalid:cycle-with-island");
        }
        parent[ra] = rb;
    }
    (true, nodes, "valid")
}

/// BFS path product from `from` to `to` over the quotes (inverted where travelled backwards);
/// also returns the path as (quote index, forward?) and the number of hops.
pub fn path_rate(quotes: &[Quote], from: u8, to: u8) -> Option<(f64, Vec<(usize, bool)>)> {
    if from == to {
        return Some((1.0, vec![]));
    }
    let mut prev: std::collections::HashMap<u8, (u8, usize, bool)> = Default::default();
    let mut queue = std::collections::VecDeque::new();
    queue.push_back(from);
    let mut seen = vec![from];
    while let Some(c) = queue.pop_front() {
        for (i, q) in quotes.iter().enumerate() {
            let (l, r) = (q.lhs % 12, q.rhs % 12);
            let next = if l == c { Some((r, true)) } else if r == c { Some((l, false)) } else { None };
            if let Some((nx, fwd)) = next {
                if !seen.contains(&nx) {
                    seen.push(nx);
                    prev.insert(nx, (c, i, fwd));
                    queue.push_back(nx);
                }
            }
        }
    }
    let mut path = Vec::new();
    let mut cur = to;
    while cur != from {
        let (p, i, fwd) = *prev.get(&cur)?;
        path.push((i, fwd));
        cur = p;
    }
    path.reverse();
    let mut rate = 1.0;
    for (i, fwd) in &path {
        rate = if *fwd { rate * quotes[*i].rate.0 } else { rate / quotes[*i].rate.0 };
    }
    Some((rate, path))
}

// ---------------------------------------------------------------------------------------------
// generators

#[derive(Clone, Debug)]
enum Shape {
    Chain,
    Star,
    Random(Vec<u16>),
}

pub fn tree_quotes() -> impl Strategy<Value = Vec<Quote>> {
    let shape = prop_oneof![
        1 => Just(Shape::Chain),
        1 => Just(Shape::Star),
        4 => proptest::collection::vec(any::<u16>(), 11).prop_map(Shape::Random),
    ];
    (
        2usize..=12,
        shape,
        Just((0u8..12).collect::<Vec<u8>>()).prop_shuffle(),
        proptest::collection::vec((any::<bool>(), log_uniform(1e-4, 1e4)), 11),
        proptest::option::weighted(0.3, 10_000i64..30_000),
        any::<u32>(),
    )
        .prop_map(|(n, shape, labels, edge_data, settle, shuffle)| {
            let mut quotes = Vec::new();
            for i in 1..n {
                let parent = match &shape {
                    Shape::Chain => i - 1,
                    Shape::Star => 0,
                    Shape::Random(p) => pick(p[i - 1], i),
                };
                let (flip, rate) = edge_data[i - 1];
                let (a, b) = if flip { (labels[i], labels[parent]) } else { (labels[parent], labels[i]) };
                quotes.push(Quote { lhs: a, rhs: b, rate, settle });
            }
            // shuffle the quote order (rotation + optional reversal derived from the drawn bits)
            let k = (shuffle as usize) % quotes.len().max(1);
            quotes.rotate_left(k);
            if (shuffle >> 16) & 1 == 1 {
                quotes.reverse();
            }
            if quotes.len() > 2 && (shuffle >> 17) & 1 == 1 {
                let m = quotes.len() / 2;
                quotes.swap(0, m);
            }
            quotes
        })
}

#[derive(Clone, Debug)]
enum Damage {
    None,
    DropEdge(u16),
    AddEdge(u8, u8, Fl),
    ReplaceWithCycle(u16, u16),
    Duplicate(u16, u16),
    ReverseDuplicate(u16, u16),
    SettleMix(u16, Option<i64>),
    BaseOutside(u8),
}

fn case_strategy() -> impl Strategy<Value = Case> {
    let damage = prop_oneof![
        6 => Just(Damage::None),
        1 => any::<u16>().prop_map(Damage::DropEdge),
        1 => (0u8..12, 0u8..12, log_uniform(1e-2, 1e2)).prop_map(|(a, b, r)| Damage::AddEdge(a, b, r)),
        1 => (any::<u16>(), any::<u16>()).prop_map(|(a, b)| Damage::ReplaceWithCycle(a, b)),
        1 => (any::<u16>(), any::<u16>()).prop_map(|(a, b)| Damage::Duplicate(a, b)),
        1 => (any::<u16>(), any::<u16>()).prop_map(|(a, b)| Damage::ReverseDuplicate(a, b)),
        1 => (any::<u16>(), proptest::option::of(10_000i64..30_000)).prop_map(|(a, s)| Damage::SettleMix(a, s)),
        1 => (0u8..12).prop_map(Damage::BaseOutside),
    ];
    (tree_quotes(), damage, proptest::option::weighted(0.7, any::<u16>()), any::<u8>(), proptest::option::weighted(0.7, any::<u16>())).prop_map(
        |(mut quotes, damage, base_pick, twin_rot, twin_base_pick)| {
            let nodes = model_valid(&quotes, None).1;
            let mut base = base_pick.map(|p| nodes[pick(p, nodes.len())]);
            let twin_base = twin_base_pick;
            match damage {
                Damage::None => {}
                Damage::DropEdge(i) => {
                    if quotes.len() > 1 {
                        let k = pick(i, quotes.len());
                        quotes.remove(k);
                    }
                }
                Damage::AddEdge(a, b, r) => {
                    if a != b {
                        let s = quotes[0].settle;
                        quotes.push(Quote { lhs: a, rhs: b, rate: r, settle: s });
                    }
                }
                Damage::ReplaceWithCycle(i, j) => {
                    // replace an edge by one between two currencies that are already connected
                    if quotes.len() >= 3 {
                        let k = pick(i, quotes.len());
                        let removed = quotes.remove(k);
                        let rest = model_valid(&quotes, None).1;
                        // pick two nodes that remain connected without the removed edge
                        let a = rest[pick(j, rest.len())];
                        let b = rest.iter().find(|c| **c != a && path_rate(&quotes, a, **c).is_some() && !quotes.iter().any(|q| (q.lhs == a && q.rhs == **c) || (q.lhs == **c && q.rhs == a))).cloned();
                        match b {
                            Some(b) => quotes.insert(k.min(quotes.len()), Quote { lhs: a, rhs: b, rate: removed.rate, settle: removed.settle }),
                            None => quotes.insert(k.min(quotes.len()), removed),
                        }
                    }
                }
                Damage::Duplicate(i, j) => {
                    let (k, m) = (pick(i, quotes.len()), pick(j, quotes.len()));
                    let q = quotes[m].clone();
                    quotes[k] = q;
                }
                Damage::ReverseDuplicate(i, j) => {
                    let (k, m) = (pick(i, quotes.len()), pick(j, quotes.len()));
                    let q = quotes[m].clone();
                    quotes[k] = Quote { lhs: q.rhs, rhs: q.lhs, rate: Fl(1.0 / q.rate.0), settle: q.settle };
                }
                Damage::SettleMix(i, s) => {
                    let k = pick(i, quotes.len());
                    quotes[k].settle = s;
                }
                Damage::BaseOutside(b) => base = Some(b),
            }
            Case { quotes, base, twin_rot, twin_base }
        },
    )
}

fn val(n: &Number) -> f64 {
    f64::from(n)
}

impl Property for C09 {
    type Case = Case;
    fn id(&self) -> &'static str {
        "C09"
    }

    fn check(&self, c: &Case) -> Verdict {
        let mut v = Verdict::new();
        let (valid, nodes, class) = model_valid(&c.quotes, c.base);
        v.label(class);
        let built = match catch(|| build(&c.quotes, c.base)) {
            Ok(b) => b,
            Err(p) => {
                v.fail(format!("FXRates::try_new | panic | {}", p.site()), p.message);
                return v;
            }
        };
        if !valid {
            v.nt(true);
            if built.is_ok() {
                v.fail(format!("invalid quote set accepted | {}", class), format!("{:?} base {:?}", c.quotes, c.base));
            }
            return v;
        }
        let fxr = match built {
            Ok(f) => f,
            Err(_) => {
                v.fail("valid quote set rejected", format!("{:?} base {:?}", c.quotes, c.base));
                return v;
            }
        };
        // the same valid, dated quote set with ONE quote's settlement moved by a fraction of a second
        // (each quote stamped with its own "now"): inconsistent settlement dates, must be rejected;
        // with ALL quotes moved by the same fraction: consistent again, must be accepted
        if c.quotes.len() >= 2 && c.quotes.iter().all(|q| q.settle.is_some()) {
            let nanos = 1 + (c.twin_rot as i64 * 3_906_251) % 999_999_999;
            let victim = c.twin_rot as usize % c.quotes.len();
            let with_fraction = |only: Option<usize>| -> Result<FXRates, pyo3::PyErr> {
                let rates = c
                    .quotes
                    .iter()
                    .enumerate()
                    .map(|(i, q)| {
                        let s = q.settle.map(|d| day_to_ndt(d) + chrono::Duration::nanoseconds(if only.map_or(true, |o| o == i) { nanos } else { 0 }));
                        FXRate::try_new(CCYS[q.lhs as usize % 12], CCYS[q.rhs as usize % 12], Number::F64(q.rate.0), s).expect("fx rate")
                    })
                    .collect();
                FXRates::try_new(rates, c.base.map(ccy))
            };
            v.label("settlement:sub-second-variants");
            match catch(|| (with_fraction(Some(victim)).is_ok(), with_fraction(None).is_ok())) {
                Ok((false, true)) => {}
                Ok((one_moved_accepted, all_moved_accepted)) => {
                    v.fail(
                        if one_moved_accepted { "invalid quote set accepted | invalid:settlement-mix" } else { "valid quote set rejected" },
                        format!("{:?}: quote {} settled {} ns later than the others accepted: {}; all quotes settled {} ns later accepted: {}", c.quotes, victim, nanos, one_moved_accepted, nanos, all_moved_accepted),
                    );
                    return v;
                }
                Err(p) => {
                    v.fail(format!("FXRates::try_new | panic | {}", p.site()), p.message);
                    return v;
                }
            }
        }
        let n = nodes.len();
        v.label(intern(format!("n:{}", n)));
        // shape statistics
        let mut diameter = 0;
        let mut degree = vec![0usize; 12];
        for q in &c.quotes {
            degree[(q.lhs % 12) as usize] += 1;
            degree[(q.rhs % 12) as usize] += 1;
        }
        for a in &nodes {
            for b in &nodes {
                if let Some((_, p)) = path_rate(&c.quotes, *a, *b) {
                    diameter = diameter.max(p.len());
                }
            }
        }
        let maxdeg = *degree.iter().max().unwrap();
        v.label(if n >= 3 && maxdeg == n - 1 { "shape:star" } else if n >= 3 && maxdeg <= 2 { "shape:chain" } else if n < 3 { "shape:pair" } else { "shape:other" });
        v.label_if(c.base.is_none(), "base:none");
        v.label_if(c.quotes[0].settle.is_some(), "settlement:dated");
        v.nt(n >= 4 && diameter >= 3);

        // every cross available and equal to the path product
        let mut table = vec![vec![0.0; n]; n];
        for (i, a) in nodes.iter().enumerate() {
            for (j, b) in nodes.iter().enumerate() {
                let got = match fxr.rate(&ccy(*a), &ccy(*b)) {
                    Some(g) => val(&g),
                    None => {
                        v.fail("a cross rate is not available", format!("{}{}", CCYS[*a as usize], CCYS[*b as usize]));
                        return v;
                    }
                };
                table[i][j] = got;
                let (exp, path) = path_rate(&c.quotes, *a, *b).expect("tree path");
                if i == j {
                    if got != 1.0 {
                        v.fail("a currency against itself is not exactly 1", format!("{}: {:e}", CCYS[*a as usize], got));
                        return v;
                    }
                    continue;
                }
                if path.len() == 1 && path[0].1 {
                    // a quoted pair in the quoted orientation: exact
                    if got.to_bits() != c.quotes[path[0].0].rate.0.to_bits() {
                        v.fail("a quoted pair is not returned exactly as quoted", format!("{}{}: quoted {:e}, returned {:e}", CCYS[*a as usize], CCYS[*b as usize], c.quotes[path[0].0].rate.0, got));
                        return v;
                    }
                }
                if !close(got, exp, 1e-12, 0.0) {
                    v.fail(
                        "a cross rate differs from the product of the quotes along the path",
                        format!("{}{}: returned {:e}, path product {:e} over {} quotes", CCYS[*a as usize], CCYS[*b as usize], got, exp, path.len()),
                    );
                    return v;
                }
            }
        }
        for i in 0..n {
            for j in 0..n {
                if !close(table[i][j] * table[j][i], 1.0, 1e-12, 1.0) {
                    v.fail("rate times inverse rate is not 1", format!("{}{}: {:e} x {:e}", CCYS[nodes[i] as usize], CCYS[nodes[j] as usize], table[i][j], table[j][i]));
                    return v;
                }
            }
        }
        // unknown currencies are not answered
        if let Some(unknown) = (0u8..12).find(|k| !nodes.contains(k)) {
            if fxr.rate(&ccy(unknown), &ccy(nodes[0])).is_some() || fxr.rate(&ccy(nodes[0]), &ccy(unknown)).is_some() {
                v.fail("a rate was returned for a currency outside the market", CCYS[unknown as usize].to_string());
                return v;
            }
        }
        // independence of quote order and base: the reshuffled twin agrees
        let mut q2 = c.quotes.clone();
        let k = (c.twin_rot as usize) % q2.len();
        q2.rotate_left(k);
        if c.twin_rot & 0x80 != 0 {
            q2.reverse();
        }
        let twin_base = c.twin_base.map(|p| nodes[pick(p, nodes.len())]);
        // the twin is also spelled differently: every occurrence of a currency code gets its own mix
        // of upper and lower case (codes are documented as case-insensitive: "converted to
        // lowercase to promote performant equality between USD and usd")
        let spell = |code: u8, bits: usize| -> String { CCYS[code as usize % 12].chars().enumerate().map(|(i, ch)| if (bits >> i) & 1 == 1 { ch.to_ascii_uppercase() } else { ch }).collect() };
        let rot = c.twin_rot as usize;
        let build_twin = || -> Result<FXRates, pyo3::PyErr> {
            let rates = q2
                .iter()
                .enumerate()
                .map(|(i, q)| FXRate::try_new(&spell(q.lhs, rot + 3 * i), &spell(q.rhs, rot / 8 + 5 * i + 1), Number::F64(q.rate.0), q.settle.map(day_to_ndt)).expect("fx rate"))
                .collect();
            FXRates::try_new(rates, twin_base.map(|b| Ccy::try_new(&spell(b, rot / 3 + 2)).expect("currency")))
        };
        v.label("twin:mixed-case-spelling");
        match catch(build_twin) {
            Ok(Ok(twin)) => {
                for (i, a) in nodes.iter().enumerate() {
                    for (j, b) in nodes.iter().enumerate() {
                        let t = twin.rate(&ccy(*a), &ccy(*b)).map(|x| val(&x));
                        if t.map_or(true, |t| !close(t, table[i][j], 1e-12, 0.0)) {
                            v.fail(
                                "rates depend on the order of the quotes or on the base",
                                format!("{}{}: {:e} with quotes {:?} base {:?}, {:?} with quotes {:?} base {:?}", CCYS[*a as usize], CCYS[*b as usize], table[i][j], c.quotes, c.base, t, q2, twin_base),
                            );
                            return v;
                        }
                    }
                }
            }
            Ok(Err(_)) => v.fail("valid quote set rejected after reordering / re-basing", format!("{:?} base {:?}", q2, twin_base)),
            Err(p) => v.fail(format!("FXRates::try_new | panic | {}", p.site()), p.message),
        }
        v
    }

    fn plan(&self, tier: Tier) -> Vec<Stage<Case>> {
        vec![Stage::random("random", tier.pick(150_000, 5_000_000), case_strategy)]
    }

    fn rule(&self) -> String {
        "random labelled trees on 2-12 currencies (random recursive trees plus forced chains and stars, random relabelling over 12 codes), random orientation per quoted pair, log-uniform rates 1e-4..1e4, shuffled quote order, base in {none, any currency of the market}, optional common settlement date; about 40% of cases are then damaged on purpose (edge dropped / added, edge replaced so that a cycle plus a disconnected currency keeps the count right, pair duplicated or reverse-duplicated, settlement dates mixed, base outside the market). A union-find decides the expected verdict. Oracle for valid sets: every one of the n*n crosses is available, quoted pairs bit-exact, diagonal exactly 1, rate x inverse == 1 (1e-12), every cross == BFS path product with inversion on backward edges (1e-12), a reshuffled / re-based twin market, whose currency codes are spelled with a different mix of upper and lower case at every occurrence, agrees (1e-12), currencies outside the market are not answered; invalid sets must be rejected; a dated valid set with one quote's settlement moved by a fraction of a second must be rejected, with all moved alike accepted. Non-trivial: n >= 4 with a path of >= 3 quotes, or any invalid set.".into()
    }

    fn floors(&self, tier: Tier) -> Vec<Floor> {
        let n = tier.pick(150_000u64, 5_000_000);
        vec![
            Floor { label: "shape:chain", min: n / 20 },
            Floor { label: "shape:star", min: n / 20 },
            Floor { label: "shape:other", min: n / 5 },
            Floor { label: "n:12", min: n / 50 },
            Floor { label: "invalid:under-specified", min: n / 50 },
            Floor { label: "invalid:over-specified", min: n / 50 },
            Floor { label: "invalid:cycle-with-island", min: n / 100 },
            Floor { label: "invalid:settlement-mix", min: n / 50 },
            Floor { label: "settlement:sub-second-variants", min: n / 50 },
            Floor { label: "base:none", min: n / 10 },
        ]
    }
}
