//! C20 - Fallible entry points return errors, never abort; date arithmetic is total.

use crate::engine::*;
use crate::gen::cal::*;
use crate::model::civil::*;
use crate::props::c04::modifier_of;
use crate::props::c05::day_count;
use crate::props::c08::RollSpec;
use crate::props::c09::{ccy, model_valid, tree_quotes, Quote, CCYS};
use crate::props::c14::{knot_spec, KnotSpec};
use crate::props::c16::{dual_spec, name, DualSpec};
use crate::util::*;
use indexmap::IndexMap;
use proptest::prelude::*;
use rateslib::calendars::{Cal, CalType, Convention, DateRoll, Modifier, NamedCal, UnionCal};
use rateslib::calendars::get_roll;
use rateslib::curves::{CurveDF, LinearInterpolator, Nodes};
use rateslib::dual::{ADOrder, Dual, Dual2, Gradient1, Gradient2, Number, Vars};
use rateslib::fx::rates::{Ccy, FXPair, FXRate, FXRates};
use rateslib::json::JSON;
use rateslib::splines::PPSpline;
use rateslib::verif_hooks::{tagged_from_json, tagged_to_json, VCurve, VInterp, VObj};
use serde::{Deserialize, Serialize};
use serde_json::Value;

// ---------------------------------------------------------------------------------------------
// case types

/// a float of any kind, including NaN and the infinities
#[derive(Clone, Copy, Debug, Serialize, Deserialize)]
pub struct AnyF(pub Fl);

#[derive(Clone, Debug, Serialize, Deserialize)]
pub struct WildQuote {
    pub lhs: String,
    pub rhs: String,
    pub rate: Fl,
    /// 0 float, 1 first order, 2 second order
    pub kind: u8,
    pub content: DualSpec,
    pub settle: Option<i64>,
}

#[derive(Clone, Debug, Serialize, Deserialize)]
pub enum DocKind {
    Dual,
    Dual2,
    Cal,
    UnionCal,
    NamedCal,
    CalType,
    FXRates,
    CurveDF,
    Curve,
    SplineF64,
    SplineDual,
    SplineDual2,
    FXRate,
    Number,
}

#[derive(Clone, Debug, Serialize, Deserialize)]
pub enum Mutation {
    /// remove the node from its parent
    Delete(u16),
    /// repeat an object member (duplicate key, done on the text) or an array element
    Duplicate(u16),
    /// replace a node by another JSON value
    Replace(u16, Repl),
    /// if the node is a string: replace by a semantically wrong string
    BadString(u16, u8),
    /// if the node is an array: truncate / extend / empty
    Resize(u16, u8),
    /// if the node is a number: perturb it
    Perturb(u16, u8),
    /// if the node is a serialised array ({"v":1,"dim":[..],"data":[..]}): give it another shape with
    /// the same number of elements
    Reshape(u16, u8),
    /// if the node is a serialised spline ({"k":..,"t":[..],"c":..,"n":..}): make it degenerate in
    /// several fields at once - order beyond the knot count, n = 0, no coefficients
    DegenerateSpline(u16, u8),
}

#[derive(Clone, Debug, Serialize, Deserialize)]
pub enum Repl {
    Null,
    Bool(bool),
    Int(i64),
    Float(Fl),
    Str(String),
    EmptyArray,
    EmptyObject,
}

#[derive(Clone, Debug, Serialize, Deserialize)]
pub enum Case {
    // ---- (A) constructors and fallible operations with arbitrary arguments
    DualNew { second: bool, real: Fl, names: Vec<String>, d1: Vec<Fl>, d2: Vec<Fl>, from_other: Option<Vec<String>> },
    CcyNew { s: String },
    PairNew { l: String, r: String },
    FxRatesNew { quotes: Vec<WildQuote>, base: Option<String> },
    NamedNew { s: String },
    SplineSolve { knots: KnotSpec, tau: Vec<Fl>, ylen: u8, left_n: u8, right_n: u8, lsq: bool, kind: u8, x: Fl, m: u8 },
    GetRoll { year: i32, month: u32, roll: RollSpec },
    IndexValue { base: Option<Fl>, nodes: Vec<(i64, Fl)>, query: i64 },
    // ---- (B) date arithmetic is total
    DateArith { cal: AnyCal, day: i64, n: i8, modifier: u8, settlement: bool },
    AddMonths { cal: AnyCal, day: i64, months: i32, roll: RollSpec, modifier: u8, settlement: bool },
    // ---- (C) documents: a valid JSON text with structural mutations
    Document { kind: DocKind, tagged: bool, seed_obj: DocSeed, mutations: Vec<Mutation> },
    /// a JSON text given literally (what the byte-level fuzzer finds), loaded as the given kind
    RawDocument { kind: DocKind, tagged: bool, text: String },
}

/// what the valid document is built from
#[derive(Clone, Debug, Serialize, Deserialize)]
pub struct DocSeed {
    pub dual: DualSpec,
    pub cal: CalSpec,
    pub union: UnionSpec,
    pub named: String,
    pub quotes: Vec<Quote>,
    pub knots: KnotSpec,
    pub nodes: Vec<(i64, Fl)>,
    pub order: u8,
    pub solved: bool,
}

pub struct C20;

// ---------------------------------------------------------------------------------------------
// generators

fn wild_float() -> impl Strategy<Value = Fl> {
    prop_oneof![
        4 => any_finite(),
        2 => (-10.0f64..10.0).prop_map(Fl),
        1 => prop::sample::select(vec![f64::NAN, f64::INFINITY, f64::NEG_INFINITY, 0.0, -0.0, -1.0]).prop_map(Fl),
    ]
}

fn ccy_string() -> impl Strategy<Value = String> {
    prop_oneof![
        4 => prop::sample::select(CCYS.to_vec()).prop_map(|s| s.to_string()),
        2 => "[a-zA-Z]{3}",
        1 => "[a-zA-Z]{0,6}",
        1 => "\\PC{0,4}",
        1 => prop::sample::select(vec!["İİ", "ßa", "éa", "日", "a\u{0}b", "   ", "\u{1F600}"]).prop_map(|s| s.to_string()),
    ]
}

fn wild_quote() -> impl Strategy<Value = WildQuote> {
    (ccy_string(), ccy_string(), wild_float(), 0u8..3, dual_spec(), proptest::option::weighted(0.3, prop_oneof![Just(19_000i64), Just(19_001i64)]))
        .prop_map(|(lhs, rhs, rate, kind, content, settle)| WildQuote { lhs, rhs, rate, kind, content, settle })
}

fn named_wild() -> impl Strategy<Value = String> {
    prop_oneof![
        3 => named_string(),
        3 => "[a-zA-Z,| ]{0,14}",
        2 => (named_string(), "[,| a-z]{0,3}").prop_map(|(a, b)| format!("{}{}", a, b)),
        1 => "\\PC{0,8}",
    ]
}

fn roll_spec_wild() -> impl Strategy<Value = RollSpec> {
    prop_oneof![Just(RollSpec::Unspecified), (1u32..=31).prop_map(RollSpec::Int), Just(RollSpec::EoM), Just(RollSpec::SoM), Just(RollSpec::IMM)]
}

fn doc_seed() -> impl Strategy<Value = DocSeed> {
    (
        dual_spec(),
        (base_day(), cal_spec_rel(30)).prop_map(|(b, c)| c.shift(b)),
        (base_day(), union_spec_rel(30)).prop_map(|(b, u)| u.shift(b)),
        named_string(),
        tree_quotes(),
        knot_spec(),
        proptest::collection::vec(((1i64..=4000).prop_map(|d| d * 86400), (0.2f64..1.2).prop_map(Fl)), 2..6),
        0u8..3,
        any::<bool>(),
    )
        .prop_map(|(mut dual, cal, union, named, mut quotes, knots, steps, order, solved)| {
            // documents are kept small so that mutations hit interesting places
            dual.names.truncate(3);
            quotes.truncate(4);
            let mut keep: Vec<Quote> = Vec::new();
            for q in quotes {
                if keep.is_empty() || keep.iter().any(|k| k.lhs == q.lhs || k.lhs == q.rhs || k.rhs == q.lhs || k.rhs == q.rhs) {
                    keep.push(q);
                }
            }
            let mut t = 946_684_800i64;
            let nodes = steps
                .into_iter()
                .map(|(dt, v)| {
                    t += dt;
                    (t, v)
                })
                .collect();
            DocSeed { dual, cal, union, named, quotes: keep, knots, nodes, order, solved }
        })
}

fn repl() -> impl Strategy<Value = Repl> {
    prop_oneof![
        Just(Repl::Null),
        any::<bool>().prop_map(Repl::Bool),
        prop::sample::select(vec![0i64, 1, -1, 2, 7, 255, 256, -128, 1 << 40, i64::MAX, i64::MIN]).prop_map(Repl::Int),
        prop::sample::select(vec![0.5, -0.0, 1e308, 1e-320, 2.5, -3.75, 1e19]).prop_map(|f| Repl::Float(Fl(f))),
        prop::sample::select(vec!["", "xyz", "usdd", "Funday", "2020-13-45 00:00:00", "1", "null", "tgt"]).prop_map(|s| Repl::Str(s.to_string())),
        Just(Repl::EmptyArray),
        Just(Repl::EmptyObject),
    ]
}

fn mutation() -> impl Strategy<Value = Mutation> {
    prop_oneof![
        3 => any::<u16>().prop_map(Mutation::Delete),
        2 => any::<u16>().prop_map(Mutation::Duplicate),
        4 => (any::<u16>(), repl()).prop_map(|(i, r)| Mutation::Replace(i, r)),
        2 => (any::<u16>(), 0u8..6).prop_map(|(i, k)| Mutation::BadString(i, k)),
        3 => (any::<u16>(), 0u8..4).prop_map(|(i, k)| Mutation::Resize(i, k)),
        3 => (any::<u16>(), 0u8..6).prop_map(|(i, k)| Mutation::Perturb(i, k)),
        2 => (any::<u16>(), 0u8..5).prop_map(|(i, k)| Mutation::Reshape(i, k)),
        1 => (any::<u16>(), 0u8..4).prop_map(|(i, k)| Mutation::DegenerateSpline(i, k)),
    ]
}

fn doc_kind() -> impl Strategy<Value = DocKind> {
    prop::sample::select(vec![
        DocKind::Dual, DocKind::Dual2, DocKind::Cal, DocKind::UnionCal, DocKind::NamedCal, DocKind::CalType, DocKind::FXRates, DocKind::FXRates, DocKind::CurveDF,
        DocKind::Curve, DocKind::SplineF64, DocKind::SplineDual, DocKind::SplineDual2, DocKind::FXRate, DocKind::Number,
    ])
}

fn case_strategy() -> impl Strategy<Value = Case> {
    prop_oneof![
        3 => (any::<bool>(), wild_float(), proptest::collection::vec(prop_oneof![3 => "[a-c]", 1 => name()], 0..6), proptest::collection::vec(wild_float(), 0..=8), proptest::collection::vec(wild_float(), 0..=17), proptest::option::weighted(0.3, proptest::collection::vec("[a-d]", 0..4)))
            .prop_map(|(second, real, names, d1, d2, from_other)| Case::DualNew { second, real, names, d1, d2, from_other }),
        1 => ccy_string().prop_map(|s| Case::CcyNew { s }),
        1 => (ccy_string(), ccy_string()).prop_map(|(l, r)| Case::PairNew { l, r }),
        3 => (proptest::collection::vec(wild_quote(), 0..8), proptest::option::of(ccy_string())).prop_map(|(quotes, base)| Case::FxRatesNew { quotes, base }),
        2 => named_wild().prop_map(|s| Case::NamedNew { s }),
        3 => (knot_spec(), proptest::collection::vec((0.0f64..1.0).prop_map(Fl), 0..14), 0u8..16, 0u8..8, 0u8..8, any::<bool>(), 0u8..3, (0.0f64..1.0).prop_map(Fl), 0u8..8, prop::bool::weighted(0.35))
            .prop_map(|(knots, mut tau, ylen, left_n, right_n, lsq, kind, x, m, match_len)| {
                // a good share of well-formed calls (as many sites as coefficients, y as long)
                let n = knots.knots().len() - knots.order();
                if match_len {
                    while tau.len() < n { tau.push(Fl(tau.len() as f64 / (n as f64 + 1.0))); }
                    tau.truncate(n);
                    if m % 2 == 0 && n >= 1 {
                        // admissible by construction: the Greville abscissae, as fractions of the domain
                        let (k, t) = (knots.order(), knots.knots());
                        let (a, b) = (t[0], t[t.len() - 1]);
                        tau = (0..n).map(|i| {
                            let g = if k > 1 { t[i + 1..i + k].iter().sum::<f64>() / (k - 1) as f64 } else { 0.5 * (t[i] + t[i + 1]) };
                            Fl(((g - a) / (b - a)).clamp(0.0, 1.0))
                        }).collect();
                    }
                }
                let ylen = if match_len { tau.len() as u8 } else { ylen };
                Case::SplineSolve { knots, tau, ylen, left_n, right_n, lsq, kind, x, m }
            }),
        1 => (1960i32..2210, 1u32..=12, roll_spec_wild()).prop_map(|(year, month, roll)| Case::GetRoll { year, month, roll }),
        1 => (proptest::option::of((0.0f64..300.0).prop_map(Fl)), proptest::collection::vec(((1i64..=4000).prop_map(|d| d * 86400), (0.01f64..2.0).prop_map(Fl)), 2..5), -10_000i64..20_000)
            .prop_map(|(base, steps, q)| {
                let mut t = 946_684_800i64;
                let nodes: Vec<(i64, Fl)> = steps.into_iter().map(|(dt, v)| { t += dt; (t, v) }).collect();
                Case::IndexValue { base, query: nodes[0].0 + q * 86400, nodes }
            }),
        4 => (base_day(), any_cal_rel(60), -30i64..=30, day_count(), 0u8..5, any::<bool>()).prop_map(|(b, cal, off, n, modifier, settlement)| Case::DateArith { cal: cal.shift(b), day: b + off, n, modifier, settlement }),
        3 => (DAY_MIN..=day_max(), any_cal_rel(40), 1970i64 * 12..=2200 * 12 + 11, roll_spec_wild(), 0u8..5, any::<bool>()).prop_map(|(day, cal, target, roll, modifier, settlement)| {
            let (y, m, _) = civil_from_days(day);
            let months = (target - (y * 12 + m as i64 - 1)) as i32;
            let (ty, tm) = (target.div_euclid(12), (target.rem_euclid(12) + 1) as u32);
            Case::AddMonths { cal: cal.shift(days_from_civil(ty, tm, 15)), day, months, roll, modifier, settlement }
        }),
        12 => (doc_kind(), any::<bool>(), doc_seed(), proptest::collection::vec(mutation(), 1..4)).prop_map(|(kind, tagged, seed_obj, mutations)| Case::Document { kind, tagged, seed_obj, mutations }),
    ]
}

// ---------------------------------------------------------------------------------------------
// (C) documents

fn seed_fx(seed: &DocSeed) -> FXRates {
    let rates: Vec<FXRate> = seed
        .quotes
        .iter()
        .enumerate()
        .map(|(i, q)| {
            let rate = match (seed.order + i as u8) % 3 {
                0 => Number::F64(q.rate.0),
                _ => Number::Dual(Dual::new(q.rate.0, vec![format!("q{}", i)])),
            };
            FXRate::try_new(CCYS[q.lhs as usize % 12], CCYS[q.rhs as usize % 12], rate, q.settle.map(day_to_ndt)).expect("rate")
        })
        .collect();
    FXRates::try_new(rates, None).expect("seed market")
}

fn seed_nodes(seed: &DocSeed) -> Nodes {
    match seed.order % 3 {
        0 => Nodes::F64(seed.nodes.iter().map(|(t, v)| (secs_to_ndt(*t), v.0)).collect()),
        1 => Nodes::Dual(seed.nodes.iter().enumerate().map(|(i, (t, v))| (secs_to_ndt(*t), Dual::new(v.0, vec![format!("c{}", i)]))).collect()),
        _ => Nodes::Dual2(seed.nodes.iter().enumerate().map(|(i, (t, v))| (secs_to_ndt(*t), Dual2::new(v.0, vec![format!("c{}", i)]))).collect()),
    }
}

fn tame(d: &DualSpec) -> DualSpec {
    let f = |x: Fl| Fl(if x.0.is_finite() { x.0 } else { 0.75 });
    DualSpec { real: f(d.real), names: d.names.clone(), d1: d.d1.iter().map(|x| f(*x)).collect(), d2: d.d2.iter().map(|x| f(*x)).collect() }
}

/// the valid document of the given kind
fn valid_document(kind: &DocKind, tagged: bool, seed: &DocSeed) -> Result<String, String> {
    let e = |x: serde_json::Error| x.to_string();
    let k = seed.knots.order();
    let t = seed.knots.knots();
    let n = t.len() - k;
    let d = tame(&seed.dual);
    let curve_df = || CurveDF::try_new(seed_nodes(seed), LinearInterpolator::new(), "crv", Convention::Act360, Modifier::ModF, Some(100.0), CalType::NamedCal(NamedCal::try_new("bus").unwrap())).expect("curve");
    let vcurve = || {
        let map: IndexMap<chrono::NaiveDateTime, Number> = seed.nodes.iter().map(|(t, v)| (secs_to_ndt(*t), Number::F64(v.0))).collect();
        VCurve::new(map, VInterp::LogLinear, [ADOrder::Zero, ADOrder::One, ADOrder::Two][seed.order as usize % 3], "crv", Convention::Act365F, Modifier::F, CalType::Cal(seed.cal.build()), None).expect("curve")
    };
    if tagged {
        let obj = match kind {
            DocKind::Dual => VObj::Dual(d.dual()),
            DocKind::Dual2 => VObj::Dual2(d.dual2()),
            DocKind::Cal | DocKind::CalType => VObj::Cal(seed.cal.build()),
            DocKind::UnionCal => VObj::UnionCal(seed.union.build()),
            DocKind::NamedCal => VObj::NamedCal(NamedCal::try_new(&seed.named).map_err(|_| "seed name")?),
            DocKind::FXRates | DocKind::FXRate => VObj::FXRates(seed_fx(seed)),
            DocKind::CurveDF | DocKind::Curve => VObj::Curve(vcurve()),
            DocKind::SplineF64 | DocKind::Number => VObj::PPSplineF64(PPSpline::new(k, t, if seed.solved { Some((0..n).map(|i| 0.5 + i as f64).collect()) } else { None })),
            DocKind::SplineDual => VObj::PPSplineDual(PPSpline::new(k, t, if seed.solved { Some((0..n).map(|i| Dual::new(0.5 + i as f64, vec![format!("y{}", i % 2)])).collect()) } else { None })),
            DocKind::SplineDual2 => VObj::PPSplineDual2(PPSpline::new(k, t, if seed.solved { Some((0..n).map(|i| Dual2::new(0.5 + i as f64, vec![format!("y{}", i % 2)])).collect()) } else { None })),
        };
        return tagged_to_json(&obj);
    }
    match kind {
        DocKind::Dual => serde_json::to_string(&d.dual()).map_err(e),
        DocKind::Dual2 => serde_json::to_string(&d.dual2()).map_err(e),
        DocKind::Cal => seed.cal.build().to_json().map_err(e),
        DocKind::UnionCal => seed.union.build().to_json().map_err(e),
        DocKind::NamedCal => NamedCal::try_new(&seed.named).map_err(|_| "seed name".to_string())?.to_json().map_err(e),
        DocKind::CalType => CalType::UnionCal(seed.union.build()).to_json().map_err(e),
        DocKind::FXRates => seed_fx(seed).to_json().map_err(e),
        DocKind::CurveDF => curve_df().to_json().map_err(e),
        DocKind::Curve => vcurve().to_json(),
        DocKind::SplineF64 => serde_json::to_string(&PPSpline::<f64>::new(k, t, if seed.solved { Some((0..n).map(|i| 0.5 + i as f64).collect()) } else { None })).map_err(e),
        DocKind::SplineDual => serde_json::to_string(&PPSpline::<Dual>::new(k, t, if seed.solved { Some((0..n).map(|i| Dual::new(0.5 + i as f64, vec![format!("y{}", i % 2)])).collect()) } else { None })).map_err(e),
        DocKind::SplineDual2 => serde_json::to_string(&PPSpline::<Dual2>::new(k, t, if seed.solved { Some((0..n).map(|i| Dual2::new(0.5 + i as f64, vec![format!("y{}", i % 2)])).collect()) } else { None })).map_err(e),
        DocKind::FXRate => {
            let q = &seed.quotes[0];
            serde_json::to_string(&FXRate::try_new(CCYS[q.lhs as usize % 12], CCYS[q.rhs as usize % 12], Number::Dual(d.dual()), Some(day_to_ndt(19_000))).expect("rate")).map_err(e)
        }
        DocKind::Number => serde_json::to_string(&Number::Dual2(d.dual2())).map_err(e),
    }
}

fn count_nodes(v: &Value) -> usize {
    1 + match v {
        Value::Array(a) => a.iter().map(count_nodes).sum(),
        Value::Object(o) => o.values().map(count_nodes).sum(),
        _ => 0,
    }
}

/// visit nodes in depth-first order; calls f(parent, key-or-index of the target) for the
/// `target`-th node (the root has index 0 and no parent)
fn with_parent_of(v: &mut Value, target: usize, counter: &mut usize, f: &mut dyn FnMut(&mut Value, Option<String>, Option<usize>)) -> bool {
    // returns true when handled
    match v {
        Value::Array(a) => {
            for i in 0..a.len() {
                *counter += 1;
                if *counter == target {
                    f(v, None, Some(i));
                    return true;
                }
                if let Value::Array(a2) = v {
                    if with_parent_of(&mut a2[i], target, counter, f) {
                        return true;
                    }
                }
            }
            false
        }
        Value::Object(o) => {
            let keys: Vec<String> = o.keys().cloned().collect();
            for k in keys {
                *counter += 1;
                if *counter == target {
                    f(v, Some(k), None);
                    return true;
                }
                if let Value::Object(o2) = v {
                    if let Some(child) = o2.get_mut(&k) {
                        if with_parent_of(child, target, counter, f) {
                            return true;
                        }
                    }
                }
            }
            false
        }
        _ => false,
    }
}

fn get_child<'a>(parent: &'a mut Value, key: &Option<String>, idx: &Option<usize>) -> Option<&'a mut Value> {
    match (parent, key, idx) {
        (Value::Object(o), Some(k), _) => o.get_mut(k),
        (Value::Array(a), _, Some(i)) => a.get_mut(*i),
        _ => None,
    }
}

fn repl_value(r: &Repl) -> Value {
    match r {
        Repl::Null => Value::Null,
        Repl::Bool(b) => Value::Bool(*b),
        Repl::Int(i) => Value::from(*i),
        Repl::Float(f) => serde_json::Number::from_f64(f.0).map(Value::Number).unwrap_or(Value::Null),
        Repl::Str(s) => Value::String(s.clone()),
        Repl::EmptyArray => Value::Array(vec![]),
        Repl::EmptyObject => Value::Object(Default::default()),
    }
}

/// apply the mutations; returns the mutated text and the names of the mutations that took effect
fn mutate(text: &str, muts: &[Mutation]) -> (String, Vec<&'static str>) {
    let mut v: Value = match serde_json::from_str(text) {
        Ok(v) => v,
        Err(_) => return (text.to_string(), vec![]),
    };
    let mut applied = Vec::new();
    let mut dup_keys: Vec<(String, String)> = Vec::new();
    for m in muts {
        let total = count_nodes(&v);
        if total <= 1 {
            break;
        }
        let idx = |i: u16| 1 + pick(i, total - 1);
        let mut counter = 0usize;
        match m {
            Mutation::Delete(i) => {
                with_parent_of(&mut v, idx(*i), &mut counter, &mut |p, k, ix| {
                    match (p, k, ix) {
                        (Value::Object(o), Some(k), _) => {
                            o.remove(&k);
                        }
                        (Value::Array(a), _, Some(ix)) => {
                            a.remove(ix);
                        }
                        _ => {}
                    }
                    applied.push("delete");
                });
            }
            Mutation::Duplicate(i) => {
                with_parent_of(&mut v, idx(*i), &mut counter, &mut |p, k, ix| match (p, k, ix) {
                    (Value::Object(o), Some(k), _) => {
                        if let Some(val) = o.get(&k) {
                            dup_keys.push((k.clone(), serde_json::to_string(val).unwrap_or_default()));
                            applied.push("duplicate-key");
                        }
                    }
                    (Value::Array(a), _, Some(ix)) => {
                        let e = a[ix].clone();
                        a.insert(ix, e);
                        applied.push("duplicate-element");
                    }
                    _ => {}
                });
            }
            Mutation::Replace(i, r) => {
                with_parent_of(&mut v, idx(*i), &mut counter, &mut |p, k, ix| {
                    if let Some(c) = get_child(p, &k, &ix) {
                        *c = repl_value(r);
                        applied.push("replace");
                    }
                });
            }
            Mutation::BadString(i, kind) => {
                // aim at string nodes: scan forward from the picked node to the next string
                let start = idx(*i);
                for off in 0..total {
                    let t = 1 + (start - 1 + off) % (total - 1);
                    let mut done = false;
                    let mut c2 = 0usize;
                    with_parent_of(&mut v, t, &mut c2, &mut |p, k, ix| {
                        if let Some(c) = get_child(p, &k, &ix) {
                            if c.is_string() {
                                *c = Value::String(["xyz", "usdd", "Funday", "2020-13-45 00:00:00", "", "tgt,,ldn"][*kind as usize % 6].to_string());
                                done = true;
                            }
                        }
                    });
                    if done {
                        applied.push("bad-string");
                        break;
                    }
                }
            }
            Mutation::Resize(i, kind) => {
                let start = idx(*i);
                for off in 0..total {
                    let t = 1 + (start - 1 + off) % (total - 1);
                    let mut done = false;
                    let mut c2 = 0usize;
                    with_parent_of(&mut v, t, &mut c2, &mut |p, k, ix| {
                        if let Some(Value::Array(a)) = get_child(p, &k, &ix) {
                            match kind % 4 {
                                0 => {
                                    a.pop();
                                }
                                1 => {
                                    if let Some(l) = a.last().cloned() {
                                        a.push(l);
                                    } else {
                                        a.push(Value::from(1));
                                    }
                                }
                                2 => a.clear(),
                                _ => {
                                    if !a.is_empty() {
                                        a.remove(0);
                                    }
                                }
                            }
                            done = true;
                        }
                    });
                    if done {
                        applied.push("resize-array");
                        break;
                    }
                }
            }
            Mutation::Perturb(i, kind) => {
                let start = idx(*i);
                for off in 0..total {
                    let t = 1 + (start - 1 + off) % (total - 1);
                    let mut done = false;
                    let mut c2 = 0usize;
                    with_parent_of(&mut v, t, &mut c2, &mut |p, k, ix| {
                        if let Some(c) = get_child(p, &k, &ix) {
                            if let Some(x) = c.as_f64() {
                                let is_int = c.is_i64() || c.is_u64();
                                *c = match (kind % 6, is_int) {
                                    (0, true) => Value::from((x as i64).wrapping_add(1)),
                                    (1, true) => Value::from((x as i64).wrapping_sub(1)),
                                    (2, true) => Value::from(0),
                                    (3, true) => Value::from((x as i64).wrapping_neg().wrapping_sub(1)),
                                    (4, true) => serde_json::Number::from_f64(x + 0.5).map(Value::Number).unwrap_or(Value::Null),
                                    (_, true) => Value::from(1u64 << 33),
                                    (0, false) => Value::from(x as i64),
                                    (1, false) => serde_json::Number::from_f64(-x).map(Value::Number).unwrap_or(Value::Null),
                                    (2, false) => Value::from(0),
                                    (3, false) => serde_json::Number::from_f64(1e308).map(Value::Number).unwrap_or(Value::Null),
                                    (4, false) => Value::String(format!("{}", x)),
                                    (_, false) => Value::Null,
                                };
                                done = true;
                            }
                        }
                    });
                    if done {
                        applied.push("perturb-number");
                        break;
                    }
                }
            }
            Mutation::DegenerateSpline(i, kind) => {
                let start = idx(*i);
                for off in 0..total {
                    let t = 1 + (start - 1 + off) % (total - 1);
                    let mut done = false;
                    let mut c2 = 0usize;
                    with_parent_of(&mut v, t, &mut c2, &mut |p, k, ix| {
                        if let Some(c) = get_child(p, &k, &ix) {
                            let nt = c.get("t").and_then(|t| t.as_array()).map(|a| a.len());
                            if let (Some(nt), true, true) = (nt, c.get("k").map_or(false, |x| x.is_u64()), c.get("n").is_some()) {
                                c["k"] = Value::from((nt + 1 + (*kind as usize % 2) * 3) as u64);
                                c["n"] = Value::from(0u64);
                                match kind % 4 {
                                    0 | 1 => c["c"] = Value::Null,
                                    2 => { if let Some(o) = c.as_object_mut() { o.remove("c"); } }
                                    _ => {
                                        // an empty coefficient array in whatever shape the document uses
                                        if let Some(d) = c.get_mut("c").and_then(|x| x.get_mut("data")) { *d = Value::Array(vec![]); c["c"]["dim"] = Value::from(vec![0u64]); } else { c["c"] = Value::Null; }
                                    }
                                }
                                done = true;
                            }
                        }
                    });
                    if done {
                        applied.push("degenerate-spline");
                        break;
                    }
                }
            }
            Mutation::Reshape(i, kind) => {
                let start = idx(*i);
                for off in 0..total {
                    let t = 1 + (start - 1 + off) % (total - 1);
                    let mut done = false;
                    let mut c2 = 0usize;
                    with_parent_of(&mut v, t, &mut c2, &mut |p, k, ix| {
                        if let Some(c) = get_child(p, &k, &ix) {
                            let shape: Option<Vec<u64>> = c.get("dim").and_then(|d| d.as_array()).map(|a| a.iter().filter_map(|d| d.as_u64()).collect());
                            if let (Some(shape), true) = (shape, c.get("data").map_or(false, |d| d.is_array())) {
                                let count: u64 = shape.iter().fold(1u64, |a, d| a.saturating_mul(*d));
                                let new_shape: Vec<u64> = match (kind % 5, shape.len()) {
                                    (0, 2) => vec![1, count],
                                    (1, 2) => vec![count, 1],
                                    (2, 2) => vec![count],
                                    (3, 2) => if count == 0 { vec![0, 3] } else { vec![shape[1], shape[0]] },
                                    (_, 2) => if count == 0 { vec![2, 0] } else { vec![1, 1, count] },
                                    (0, _) => vec![1, count],
                                    (1, _) => vec![count, 1],
                                    (2, _) => if count == 4 { vec![2, 2] } else { vec![count, 1, 1] },
                                    (3, _) => vec![],
                                    _ => if count == 0 { vec![0, 0] } else { vec![1, count] },
                                };
                                if new_shape != shape {
                                    c["dim"] = Value::from(new_shape);
                                    done = true;
                                }
                            }
                        }
                    });
                    if done {
                        applied.push("reshape-array");
                        break;
                    }
                }
            }
        }
    }
    let mut out = serde_json::to_string(&v).unwrap_or_default();
    for (k, val) in dup_keys {
        let member = format!("{}:{}", serde_json::to_string(&k).unwrap_or_default(), val);
        if let Some(pos) = out.find(&member) {
            out.insert_str(pos + member.len(), &format!(",{}", member));
        }
    }
    (out, applied)
}

/// shape rules that every loaded object must satisfy, checked on its re-serialised form:
/// any number with derivatives has as many first-order coefficients as variables and an n x n
/// second-order matrix; any spline has n = len(t) - k and n coefficients (if solved).
fn shape_problems(v: &Value, out: &mut Vec<String>) {
    match v {
        Value::Object(o) => {
            if let (Some(Value::Array(vars)), Some(dual)) = (o.get("vars"), o.get("dual")) {
                let n = vars.len();
                let dim = |x: &Value| -> Option<Vec<u64>> { x.get("dim")?.as_array().map(|a| a.iter().filter_map(|d| d.as_u64()).collect()) };
                let len = |x: &Value| -> Option<usize> { x.get("data")?.as_array().map(|a| a.len()) };
                if dim(dual) != Some(vec![n as u64]) || len(dual) != Some(n) {
                    out.push(format!("a number with {} variables has first-order data of shape {:?}", n, dim(dual)));
                }
                if let Some(d2) = o.get("dual2") {
                    if dim(d2) != Some(vec![n as u64, n as u64]) || len(d2) != Some(n * n) {
                        out.push(format!("a number with {} variables has second-order data of shape {:?}", n, dim(d2)));
                    }
                }
                let mut names: Vec<&str> = vars.iter().filter_map(|x| x.as_str()).collect();
                names.sort();
                if names.windows(2).any(|w| w[0] == w[1]) {
                    out.push("a number lists the same variable twice".to_string());
                }
            }
            if let (Some(k), Some(Value::Array(t)), Some(n), Some(c)) = (o.get("k").and_then(|x| x.as_u64()), o.get("t"), o.get("n").and_then(|x| x.as_u64()), o.get("c")) {
                if (t.len() as u64) < k || n != t.len() as u64 - k {
                    out.push(format!("a spline with {} knots and order {} claims n = {}", t.len(), k, n));
                }
                if !c.is_null() {
                    let cn = c.get("data").and_then(|d| d.as_array()).map(|a| a.len() as u64);
                    if cn != Some(n) {
                        out.push(format!("a spline with n = {} has {:?} coefficients", n, cn));
                    }
                }
                let ts: Vec<f64> = t.iter().filter_map(|x| x.as_f64()).collect();
                if ts.windows(2).any(|w| w[1] < w[0]) {
                    out.push("a spline has a decreasing knot sequence".to_string());
                }
            }
            // currency codes (inside "pair" and "currencies") are three lower-case bytes; the
            // two codes of a pair differ
            let code_ok = |c: &Value| c.get("name").and_then(|n| n.as_str()).map_or(false, |s| s.len() == 3 && s == s.to_lowercase());
            if let Some(Value::Array(pair)) = o.get("pair") {
                if pair.len() != 2 || !pair.iter().all(code_ok) || pair[0] == pair[1] {
                    out.push(format!("a currency pair is not two distinct 3-letter lower-case codes: {}", serde_json::to_string(pair).unwrap_or_default()));
                }
            }
            if let Some(Value::Array(cs)) = o.get("currencies") {
                if !cs.iter().all(code_ok) {
                    out.push(format!("a market lists a malformed currency code: {}", serde_json::to_string(cs).unwrap_or_default()));
                }
            }
            o.values().for_each(|x| shape_problems(x, out));
        }
        Value::Array(a) => a.iter().for_each(|x| shape_problems(x, out)),
        _ => {}
    }
}

/// load a document through the entry point of its kind; Ok(Some(json)) = loaded and
/// re-serialised, Ok(None) = rejected with an error
fn load(kind: &DocKind, tagged: bool, text: &str) -> Result<Option<String>, String> {
    fn ser<T: Serialize>(x: &T) -> Result<Option<String>, String> {
        serde_json::to_string(x).map(Some).map_err(|e| format!("loaded object cannot be saved again: {}", e))
    }
    if tagged {
        return match tagged_from_json(text) {
            Err(_) => Ok(None),
            Ok(obj) => {
                // use the loaded object the way Python would right away
                match &obj {
                    VObj::FXRates(f) => use_fx(f)?,
                    VObj::NamedCal(c) => {
                        let _ = c.is_bus_day(&day_to_ndt(19_000));
                    }
                    _ => {}
                }
                tagged_to_json(&obj).map(Some)
            }
        };
    }
    match kind {
        DocKind::Dual => serde_json::from_str::<Dual>(text).map_or(Ok(None), |x| ser(&x)),
        DocKind::Dual2 => serde_json::from_str::<Dual2>(text).map_or(Ok(None), |x| ser(&x)),
        DocKind::Cal => Cal::from_json(text).map_or(Ok(None), |x| ser(&x)),
        DocKind::UnionCal => UnionCal::from_json(text).map_or(Ok(None), |x| ser(&x)),
        DocKind::NamedCal => NamedCal::from_json(text).map_or(Ok(None), |x| ser(&x)),
        DocKind::CalType => CalType::from_json(text).map_or(Ok(None), |x| ser(&x)),
        DocKind::FXRates => FXRates::from_json(text).map_or(Ok(None), |x| {
            use_fx(&x)?;
            ser(&x)
        }),
        DocKind::CurveDF => CurveDF::<LinearInterpolator, CalType>::from_json(text).map_or(Ok(None), |x| ser(&x)),
        DocKind::Curve => VCurve::from_json(text).map_or(Ok(None), |x| x.to_json().map(Some)),
        DocKind::SplineF64 => serde_json::from_str::<PPSpline<f64>>(text).map_or(Ok(None), |x| ser(&x)),
        DocKind::SplineDual => serde_json::from_str::<PPSpline<Dual>>(text).map_or(Ok(None), |x| ser(&x)),
        DocKind::SplineDual2 => serde_json::from_str::<PPSpline<Dual2>>(text).map_or(Ok(None), |x| ser(&x)),
        DocKind::FXRate => serde_json::from_str::<FXRate>(text).map_or(Ok(None), |x| ser(&x)),
        DocKind::Number => serde_json::from_str::<Number>(text).map_or(Ok(None), |x| ser(&x)),
    }
}

/// a loaded market must answer all n*n rates
fn use_fx(f: &FXRates) -> Result<(), String> {
    let v = serde_json::to_value(f).map_err(|e| e.to_string())?;
    let ccys: Vec<String> = v.get("currencies").and_then(|c| c.as_array()).map(|a| a.iter().filter_map(|x| x.get("name").and_then(|n| n.as_str()).map(|s| s.to_string())).collect()).unwrap_or_default();
    for a in &ccys {
        for b in &ccys {
            if let (Ok(ca), Ok(cb)) = (Ccy::try_new(a), Ccy::try_new(b)) {
                if f.rate(&ca, &cb).is_none() {
                    return Err(format!("loaded market does not answer {}{}", a, b));
                }
            }
        }
    }
    Ok(())
}

// ---------------------------------------------------------------------------------------------

fn dedup(names: &[String]) -> Vec<String> {
    let mut v: Vec<String> = Vec::new();
    for n in names {
        if !v.contains(n) {
            v.push(n.clone());
        }
    }
    v
}

/// own rank test of a collocation matrix (complete pivoting, relative threshold)
fn singular(m: &[Vec<f64>]) -> bool {
    let rows = m.len();
    if rows == 0 {
        return false;
    }
    let cols = m[0].len();
    if rows != cols {
        return true;
    }
    let mut a: Vec<Vec<f64>> = m.to_vec();
    let scale = a.iter().flatten().fold(0.0f64, |s, x| s.max(x.abs())).max(1e-300);
    for j in 0..cols {
        let (mut pi, mut pj, mut best) = (j, j, 0.0);
        for i in j..rows {
            for k in j..cols {
                if a[i][k].abs() > best {
                    best = a[i][k].abs();
                    pi = i;
                    pj = k;
                }
            }
        }
        if !(best > 1e-10 * scale) {
            return true;
        }
        a.swap(j, pi);
        for r in a.iter_mut() {
            r.swap(j, pj);
        }
        for i in j + 1..rows {
            let f = a[i][j] / a[j][j];
            for k in j..cols {
                a[i][k] -= f * a[j][k];
            }
        }
    }
    false
}

impl C20 {
    fn run(&self, c: &Case, v: &mut Verdict) {
        match c {
            Case::DualNew { second, real, names, d1, d2, from_other } => {
                v.label(if *second { "ctor:Dual2::try_new" } else { "ctor:Dual::try_new" });
                let nn = dedup(names).len();
                let d1_ok = d1.is_empty() || d1.len() == nn;
                let d2_ok = d2.is_empty() || d2.len() == nn * nn;
                let expect_ok = d1_ok && (!*second || d2_ok);
                v.nt(!expect_ok || names.len() != nn || !real.0.is_finite());
                v.label(if expect_ok { "expect:ok" } else { "expect:err" });
                let other = from_other.as_ref().map(|o| Dual::new(1.0, o.clone()));
                let target = from_other.as_ref().map(|o| dedup(o).len());
                let shape: Result<Option<(usize, usize, (usize, usize))>, PanicNote> = catch(|| {
                    if *second {
                        let r = match &other {
                            None => Dual2::try_new(real.0, names.clone(), fls(d1), fls(d2)),
                            Some(o) => Dual2::try_new_from(o, real.0, names.clone(), fls(d1), fls(d2)),
                        };
                        r.ok().map(|d| (d.vars().len(), d.dual().len(), d.dual2().dim()))
                    } else {
                        let r = match &other {
                            None => Dual::try_new(real.0, names.clone(), fls(d1)),
                            Some(o) => Dual::try_new_from(o, real.0, names.clone(), fls(d1)),
                        };
                        r.ok().map(|d| (d.vars().len(), d.dual().len(), (d.vars().len(), d.vars().len())))
                    }
                });
                match shape {
                    Err(p) => v.fail(format!("number constructor | panic | {}", p.site()), format!("{:?}: {}", c, p.message)),
                    Ok(None) => {
                        if expect_ok {
                            v.fail("number constructor | consistent arguments rejected", format!("{:?}", c));
                        }
                    }
                    Ok(Some((nv, nd, dim2))) => {
                        if !expect_ok {
                            v.fail("number constructor | inconsistent lengths accepted", format!("{:?}", c));
                        } else {
                            let want = target.unwrap_or(nn);
                            if nv != want || nd != want || dim2 != (want, want) {
                                v.fail("number constructor | value breaks the shape invariant", format!("{} variables, {} coefficients, second-order {:?}", nv, nd, dim2));
                            }
                        }
                    }
                }
            }
            Case::CcyNew { s } => {
                v.label("ctor:Ccy::try_new");
                let expect_ok = s.to_lowercase().len() == 3;
                v.nt(!expect_ok);
                match catch(|| Ccy::try_new(s).is_ok()) {
                    Err(p) => v.fail(format!("Ccy::try_new | panic | {}", p.site()), format!("{:?}: {}", s, p.message)),
                    Ok(ok) => {
                        if ok != expect_ok {
                            v.fail("Ccy::try_new | the 3-letter rule is not applied", format!("{:?}: accepted = {}", s, ok));
                        }
                    }
                }
            }
            Case::PairNew { l, r } => {
                v.label("ctor:FXPair::try_new");
                let (a, b) = (l.to_lowercase(), r.to_lowercase());
                let expect_ok = a.len() == 3 && b.len() == 3 && a != b;
                v.nt(!expect_ok);
                match catch(|| (FXPair::try_new(l, r).is_ok(), FXRate::try_new(l, r, Number::F64(1.0), None).is_ok())) {
                    Err(p) => v.fail(format!("FXPair::try_new | panic | {}", p.site()), format!("{:?}/{:?}: {}", l, r, p.message)),
                    Ok((ok1, ok2)) => {
                        if ok1 != expect_ok || ok2 != expect_ok {
                            v.fail("FXPair::try_new | two distinct 3-letter codes rule is not applied", format!("{:?}/{:?}: accepted = {}/{}", l, r, ok1, ok2));
                        }
                    }
                }
            }
            Case::FxRatesNew { quotes, base } => {
                v.label("ctor:FXRates::try_new");
                // quotes whose pair cannot even be built are dropped (FXRate::try_new is checked above)
                let mut labels: Vec<String> = Vec::new();
                let mut good: Vec<(FXRate, Quote)> = Vec::new();
                for q in quotes {
                    let rate = match q.kind % 3 {
                        0 => Number::F64(q.rate.0),
                        1 => Number::Dual({
                            let mut c = q.content.clone();
                            c.real = q.rate;
                            c.dual()
                        }),
                        _ => Number::Dual2({
                            let mut c = q.content.clone();
                            c.real = q.rate;
                            c.dual2()
                        }),
                    };
                    if let Ok(Ok(r)) = catch(|| FXRate::try_new(&q.lhs, &q.rhs, rate, q.settle.map(day_to_ndt))) {
                        let mut ix = |s: &str| -> u8 {
                            let s = s.to_lowercase();
                            match labels.iter().position(|l| *l == s) {
                                Some(p) => p as u8,
                                None => {
                                    labels.push(s);
                                    (labels.len() - 1) as u8
                                }
                            }
                        };
                        let (l, r2) = (ix(&q.lhs), ix(&q.rhs));
                        good.push((r, Quote { lhs: l, rhs: r2, rate: q.rate, settle: q.settle }));
                    }
                }
                let base_c = base.as_ref().and_then(|b| Ccy::try_new(b).ok());
                if base.is_some() && base_c.is_none() {
                    return;
                }
                let base_ix = base.as_ref().map(|b| {
                    let s = b.to_lowercase();
                    match labels.iter().position(|l| *l == s) {
                        Some(p) => p as u8,
                        None => {
                            labels.push(s);
                            (labels.len() - 1) as u8
                        }
                    }
                });
                if labels.len() > 12 {
                    return;
                }
                let plain: Vec<Quote> = good.iter().map(|g| g.1.clone()).collect();
                let (valid, nodes, class) = model_valid(&plain, base_ix);
                v.label(intern(format!("fx:{}", class)));
                v.nt(true);
                let rates: Vec<FXRate> = good.into_iter().map(|g| g.0).collect();
                match catch(|| FXRates::try_new(rates, base_c)) {
                    Err(p) => v.fail(format!("FXRates::try_new | panic | {}", p.site()), format!("{:?} base {:?}: {}", quotes, base, p.message)),
                    Ok(Err(_)) => {
                        if valid {
                            v.fail("FXRates::try_new | a spanning tree of quotes was rejected", format!("{:?}", plain));
                        }
                    }
                    Ok(Ok(f)) => {
                        if !valid {
                            v.fail(format!("FXRates::try_new | invalid quote set accepted | {}", class), format!("{:?} base {:?}", plain, base_ix));
                            return;
                        }
                        for a in &nodes {
                            for b in &nodes {
                                let (ca, cb) = (Ccy::try_new(&labels[*a as usize]).unwrap(), Ccy::try_new(&labels[*b as usize]).unwrap());
                                if f.rate(&ca, &cb).is_none() {
                                    v.fail("FXRates::try_new | value does not hold all n*n rates", format!("{}{}", labels[*a as usize], labels[*b as usize]));
                                    return;
                                }
                            }
                        }
                    }
                }
            }
            Case::NamedNew { s } => {
                v.label("ctor:NamedCal::try_new");
                let lower = s.to_lowercase();
                let parts: Vec<&str> = lower.split('|').collect();
                let expect_ok = parts.len() <= 2 && parts.iter().all(|p| p.split(',').all(|t| BUILTIN.contains(&t)));
                v.label(if expect_ok { "expect:ok" } else { "expect:err" });
                v.nt(!expect_ok);
                match catch(|| NamedCal::try_new(s).map(|c| c.is_bus_day(&day_to_ndt(19_000)))) {
                    Err(p) => v.fail(format!("NamedCal::try_new | panic | {}", p.site()), format!("{:?}: {}", s, p.message)),
                    Ok(r) => {
                        if r.is_ok() != expect_ok {
                            v.fail("NamedCal::try_new | name rule is not applied", format!("{:?}: accepted = {}", s, r.is_ok()));
                        }
                    }
                }
            }
            Case::SplineSolve { knots, tau, ylen, left_n, right_n, lsq, kind, x, m } => {
                v.label("op:PPSpline::csolve");
                let k = knots.order();
                let t = knots.knots();
                let n = t.len() - k;
                let (a, b) = (t[0], t[t.len() - 1]);
                // sites: fractions of the domain, sorted (repeated sites are possible and are the
                // 'singular' class)
                let mut sites: Vec<f64> = tau.iter().map(|f| a + (b - a) * f.0).collect();
                sites.sort_by(|p, q| p.partial_cmp(q).unwrap());
                let ylen = *ylen as usize;
                let y: Vec<f64> = (0..ylen).map(|i| 0.25 * i as f64 - 1.0).collect();
                let (ln, rn) = (*left_n as usize % (k + 2), *right_n as usize % (k + 2));
                let count_ok = sites.len() == n || (*lsq && sites.len() > n);
                let expect_err = !count_ok || sites.len() != ylen;
                v.nt(true);
                v.label(if expect_err { "expect:err" } else { "expect:solve" });
                // classify the collocation matrix with the harness's own rank test
                let mut class = "length-error";
                if !expect_err {
                    let reference = crate::model::bspline::basis(k, &t);
                    let rows = sites.len();
                    let bm: Vec<Vec<f64>> = (0..rows)
                        .map(|j| {
                            let mm = if j == 0 { ln } else if j == rows - 1 { rn } else { 0 };
                            (0..n).map(|i| reference[i].eval(&t, sites[j], mm).0).collect()
                        })
                        .collect();
                    let sq: Vec<Vec<f64>> = if *lsq { (0..n).map(|i| (0..n).map(|j| (0..rows).map(|r| bm[r][i] * bm[r][j]).sum()).collect()).collect() } else { bm };
                    class = if singular(&sq) { "singular site set" } else { "admissible site set" };
                    v.label(intern(format!("csolve:{}", class)));
                }
                let xq = a + (b - a) * x.0;
                let mq = *m as usize % (k + 2);
                macro_rules! go {
                    ($T:ty, $mk:expr) => {{
                        let yy: Vec<$T> = y.iter().enumerate().map(|(i, f)| $mk(i, *f)).collect();
                        catch(|| {
                            let mut sp = PPSpline::<$T>::new(k, t.clone(), None);
                            let before = sp.ppdnev_single(&xq, mq).is_ok();
                            let r = sp.csolve(&sites, &yy, ln, rn, *lsq);
                            let after = if r.is_ok() { Some((sp.ppdnev_single(&xq, mq).is_ok(), sp.c().as_ref().map(|c| c.len()))) } else { None };
                            (before, r.is_ok(), after)
                        })
                    }};
                }
                let res = match kind % 3 {
                    0 => go!(f64, |_i: usize, f: f64| f),
                    1 => go!(Dual, |i: usize, f: f64| Dual::new(f, vec![format!("y{}", i)])),
                    _ => go!(Dual2, |i: usize, f: f64| Dual2::new(f, vec![format!("y{}", i)])),
                };
                match res {
                    Err(p) => v.fail(format!("PPSpline::csolve | {} | panic | {}", class, p.site()), format!("k={} t={:?} sites={:?} y.len={} end orders ({}, {}) lsq={}: {}", k, t, sites, ylen, ln, rn, lsq, p.message)),
                    Ok((before, solved, after)) => {
                        if before {
                            v.fail("PPSpline | evaluating an unsolved spline is not an error", "".to_string());
                        } else if expect_err && solved {
                            v.fail("PPSpline::csolve | mismatched lengths accepted", format!("n={} sites={} y={} lsq={}", n, sites.len(), ylen, lsq));
                        } else if let Some((eval_ok, clen)) = after {
                            if !eval_ok || clen != Some(n) {
                                v.fail("PPSpline::csolve | value breaks the shape invariant", format!("{:?} coefficients for n = {}", clen, n));
                            }
                        }
                    }
                }
            }
            Case::GetRoll { year, month, roll } => {
                v.label("op:get_roll");
                v.nt(matches!(roll, RollSpec::Unspecified));
                match catch(|| get_roll(*year, *month, &roll.build()).is_ok()) {
                    Err(p) => v.fail(format!("get_roll | panic | {}", p.site()), format!("{:?}: {}", c, p.message)),
                    Ok(ok) => {
                        if ok == matches!(roll, RollSpec::Unspecified) {
                            v.fail("get_roll | error contract", format!("{:?}: ok = {}", c, ok));
                        }
                    }
                }
            }
            Case::IndexValue { base, nodes, query } => {
                v.label("op:index_value");
                v.nt(base.is_none());
                let nd = Nodes::F64(nodes.iter().map(|(t, y)| (secs_to_ndt(*t), y.0)).collect());
                match catch(|| CurveDF::try_new(nd, LinearInterpolator::new(), "c", Convention::Act360, Modifier::F, base.map(|b| b.0), Cal::new(vec![], vec![5, 6])).map(|c| c.index_value(&secs_to_ndt(*query)).is_ok())) {
                    Err(p) => v.fail(format!("index_value | panic | {}", p.site()), p.message),
                    Ok(Ok(ok)) => {
                        if ok != base.is_some() {
                            v.fail("index_value | error contract (error iff no index base)", format!("{:?}", c));
                        }
                    }
                    Ok(Err(_)) => v.fail("CurveDF::try_new | rejected valid nodes", format!("{:?}", c)),
                }
            }
            Case::DateArith { cal, day, n, modifier, settlement } => {
                v.label("arith:days");
                v.nt(n.unsigned_abs() >= 100);
                v.label_if(*n == i8::MIN || *n == i8::MAX, "arith:extreme-count");
                let calobj = cal.build_cached();
                let date = day_to_ndt(*day);
                let m = modifier_of(*modifier);
                for (name, f) in [
                    ("add_days", Box::new(|| { let _ = calobj.add_days(&date, *n, &m, *settlement); }) as Box<dyn Fn()>),
                    ("add_bus_days", Box::new(|| { let _ = calobj.add_bus_days(&date, *n, *settlement); })),
                    ("lag", Box::new(|| { let _ = calobj.lag(&date, *n, *settlement); })),
                    ("roll", Box::new(|| { let _ = calobj.roll(&date, &m, *settlement); })),
                    ("bus_date_range", Box::new(|| { let _ = calobj.bus_date_range(&date, &day_to_ndt(*day + n.unsigned_abs() as i64)); })),
                ] {
                    if let Err(p) = catch(f) {
                        v.fail(format!("{} | panic | {}", name, p.site()), format!("{:?}: {}", c, p.message));
                        return;
                    }
                }
                // the one fallible operation of the family: an error exactly for a non-business start,
                // and a business day otherwise
                if let Ok((r, start_bus)) = catch(|| (calobj.add_bus_days(&date, *n, *settlement), calobj.is_bus_day(&date))) {
                    v.label_if(!start_bus, "arith:non-business-start");
                    match r {
                        Ok(d) if !start_bus => v.fail("add_bus_days | error contract (error iff the start is not a business day)", format!("{:?}: non-business start accepted, returned {}", c, d)),
                        Err(_) if start_bus => v.fail("add_bus_days | error contract (error iff the start is not a business day)", format!("{:?}: business start rejected", c)),
                        Ok(d) if !calobj.is_bus_day(&d) => v.fail("add_bus_days | returned a date that is not a business day", format!("{:?}: {}", c, d)),
                        _ => {}
                    }
                }
            }
            Case::AddMonths { cal, day, months, roll, modifier, settlement } => {
                v.label("arith:months");
                v.nt(matches!(roll, RollSpec::Int(d) if *d > 28) || months.abs() > 1200);
                let calobj = cal.build_cached();
                if let Err(p) = catch(|| calobj.add_months(&day_to_ndt(*day), *months, &modifier_of(*modifier), &roll.build(), *settlement)) {
                    v.fail(format!("add_months | panic | {}", p.site()), format!("{:?}: {}", c, p.message));
                }
            }
            Case::RawDocument { kind, tagged, text } => {
                let tagged = *tagged && !matches!(kind, DocKind::CalType | DocKind::FXRate | DocKind::Number | DocKind::CurveDF);
                v.label(intern(format!("rawdoc:{:?}{}", kind, if tagged { ":tagged" } else { "" })));
                v.nt(true);
                match catch(|| load(kind, tagged, text)) {
                    Err(p) => v.fail(
                        format!("from_json | {:?}{} | panic | {}", kind, if tagged { " (tagged)" } else { "" }, p.site()),
                        format!("document {}\n  panic: {}", text.chars().take(600).collect::<String>(), p.message),
                    ),
                    Ok(Err(e)) => v.fail(format!("from_json | {:?} | loaded object is unusable", kind), format!("{} (document {})", e, text.chars().take(600).collect::<String>())),
                    Ok(Ok(None)) => v.label("load:rejected"),
                    Ok(Ok(Some(again))) => {
                        v.label("load:accepted");
                        let mut problems = Vec::new();
                        if let Ok(val) = serde_json::from_str::<Value>(&again) {
                            shape_problems(&val, &mut problems);
                        }
                        if let Some(p) = problems.first() {
                            let which = if p.contains("spline") { "spline" } else if p.contains("currenc") { "currency code" } else { "number" };
                            v.fail(format!("from_json | loaded {} breaks its shape invariant", which), format!("{} (kind {:?}, document {})", p, kind, text.chars().take(600).collect::<String>()));
                        }
                    }
                }
            }
            Case::Document { kind, tagged, seed_obj, mutations } => {
                let tagged = *tagged && !matches!(kind, DocKind::CalType | DocKind::FXRate | DocKind::Number | DocKind::CurveDF);
                v.label(intern(format!("doc:{:?}{}", kind, if tagged { ":tagged" } else { "" })));
                let text = match catch(|| valid_document(kind, tagged, seed_obj)) {
                    Ok(Ok(t)) => t,
                    Ok(Err(e)) => {
                        v.fail("generator | cannot build the valid document", e);
                        return;
                    }
                    Err(p) => {
                        v.fail(format!("saving a valid object | panic | {}", p.site()), p.message);
                        return;
                    }
                };
                // the unmutated document must load
                match catch(|| load(kind, tagged, &text)) {
                    Ok(Ok(Some(_))) => {}
                    Ok(Ok(None)) => {
                        v.fail(format!("document | valid document rejected | {:?}", kind), text.chars().take(400).collect::<String>());
                        return;
                    }
                    Ok(Err(e)) => {
                        v.fail(format!("document | valid document | {:?}", kind), e);
                        return;
                    }
                    Err(p) => {
                        v.fail(format!("document | panic loading a valid document | {}", p.site()), p.message);
                        return;
                    }
                }
                let (mutated, applied) = mutate(&text, mutations);
                for a in &applied {
                    v.label(intern(format!("mutation:{}", a)));
                }
                v.nt(mutated != text);
                match catch(|| load(kind, tagged, &mutated)) {
                    Err(p) => v.fail(
                        format!("from_json | {:?}{} | panic | {}", kind, if tagged { " (tagged)" } else { "" }, p.site()),
                        format!("mutations {:?} on {}\n  gives {}\n  panic: {}", applied, text.chars().take(300).collect::<String>(), mutated.chars().take(600).collect::<String>(), p.message),
                    ),
                    Ok(Err(e)) => v.fail(format!("from_json | {:?} | loaded object is unusable", kind), format!("{} (document {})", e, mutated.chars().take(600).collect::<String>())),
                    Ok(Ok(None)) => {
                        v.label("load:rejected");
                    }
                    Ok(Ok(Some(again))) => {
                        v.label("load:accepted");
                        let mut problems = Vec::new();
                        if let Ok(val) = serde_json::from_str::<Value>(&again) {
                            shape_problems(&val, &mut problems);
                        }
                        if let Some(p) = problems.first() {
                            let which = if p.contains("spline") { "spline" } else if p.contains("currenc") { "currency code" } else { "number" };
                            v.fail(
                                format!("from_json | loaded {} breaks its shape invariant", which),
                                format!("{} (kind {:?}, mutations {:?}, document {})", p, kind, applied, mutated.chars().take(600).collect::<String>()),
                            );
                        }
                    }
                }
            }
        }
    }
}

impl Property for C20 {
    type Case = Case;
    fn id(&self) -> &'static str {
        "C20"
    }
    fn check(&self, c: &Case) -> Verdict {
        let mut v = Verdict::new();
        match catch(|| {
            let mut vv = Verdict::new();
            self.run(c, &mut vv);
            vv
        }) {
            Ok(vv) => v = vv,
            Err(p) => v.fail(format!("uncaught panic | {}", p.site()), p.message),
        }
        v
    }
    fn plan(&self, tier: Tier) -> Vec<Stage<Case>> {
        vec![Stage::random("random", tier.pick(300_000, 20_000_000), case_strategy)]
    }
    fn rule(&self) -> String {
        "three families, everything under catch_unwind with the interpreter initialised. (A) constructors and fallible operations with arbitrary arguments: Dual/Dual2::try_new and try_new_from (any floats incl. NaN/inf, duplicate names, coefficient vectors of any length 0-8/0-17), Ccy / FXPair / FXRate (arbitrary short unicode strings incl. ones whose lower-casing changes the byte length), FXRates::try_new (arbitrary quote multisets, any base, rates incl. 0 / negative / NaN / inf, all number kinds, settlement mixes; a union-find predicts Ok/Err), NamedCal::try_new (strings over [A-Za-z,| ] and arbitrary unicode; a parser model predicts Ok/Err), PPSpline::csolve + evaluation (any site/data lengths, end orders 0..k+1, both lsq flags, all three element types; the harness's own rank test classifies the collocation matrix), get_roll, index_value. (B) add_days / add_bus_days / lag / roll / bus_date_range over the whole i8 range and add_months for offsets landing in 1970-2200 with every roll kind and day 1-31 on arbitrary calendars; add_bus_days must return an error exactly for a non-business start and a business day otherwise. (C) valid JSON documents of 14 kinds (direct and through the tagged from_json entry point) with 1-3 structural mutations (delete, duplicate key / element, replace by another JSON value, semantically wrong string, array resize, number perturbation, re-shaping a serialised array to another shape with the same element count, making a serialised spline degenerate in three fields at once); the mutated text is loaded; an accepted object is re-saved and every number / spline inside must satisfy its shape rule, a loaded FX market must answer all n*n rates. Oracle: no panic anywhere; Ok/Err as the explicit contracts predict. Non-trivial: an argument tuple that hits an error rule or an extreme; |n| >= 100 or a capped roll day; a mutated document that differs from the original.".into()
    }
    fn floors(&self, tier: Tier) -> Vec<Floor> {
        let n = tier.pick(300_000u64, 20_000_000);
        let mut f = vec![
            Floor { label: "load:accepted", min: n / 20 },
            Floor { label: "load:rejected", min: n / 10 },
            Floor { label: "csolve:singular site set", min: n / 500 },
            Floor { label: "csolve:admissible site set", min: n / 200 },
            Floor { label: "arith:extreme-count", min: n / 500 },
            Floor { label: "arith:non-business-start", min: n / 200 },
            Floor { label: "fx:valid", min: n / 2000 },
            Floor { label: "mutation:duplicate-key", min: n / 50 },
            Floor { label: "mutation:bad-string", min: n / 50 },
            Floor { label: "mutation:reshape-array", min: n / 100 },
        ];
        for k in ["Dual", "Dual2", "Cal", "UnionCal", "NamedCal", "FXRates", "Curve", "SplineF64", "SplineDual", "SplineDual2"] {
            f.push(Floor { label: intern(format!("doc:{}", k)), min: n / 200 });
            f.push(Floor { label: intern(format!("doc:{}:tagged", k)), min: n / 200 });
        }
        f
    }
    fn assumptions(&self) -> Vec<String> {
        vec![
            "inputs stay inside the documented ranges: week-mask days 0-6, roll days 1-31, years 1970-2200, and at least one working weekday (otherwise a date search cannot terminate, which is a hang, not an abort)".into(),
            "PPSpline::new and Cal::new are not result-returning and are called with valid arguments only".into(),
        ]
    }
}

pub const DOC_KINDS: [DocKind; 14] = [
    DocKind::Dual, DocKind::Dual2, DocKind::Cal, DocKind::UnionCal, DocKind::NamedCal, DocKind::CalType, DocKind::FXRates, DocKind::CurveDF,
    DocKind::Curve, DocKind::SplineF64, DocKind::SplineDual, DocKind::SplineDual2, DocKind::FXRate, DocKind::Number,
];

/// byte-level fuzz entry: first byte selects (kind, tagged), the rest is the JSON text
pub fn raw_document_case(data: &[u8]) -> Option<Case> {
    let (sel, rest) = data.split_first()?;
    let text = std::str::from_utf8(rest).ok()?.to_string();
    Some(Case::RawDocument { kind: DOC_KINDS[(*sel as usize) % 14].clone(), tagged: (*sel as usize / 14) % 2 == 1, text })
}

/// seed corpus for the byte-level target: valid documents of every kind, direct and tagged
pub fn seed_corpus() -> Vec<Vec<u8>> {
    use proptest::strategy::{Strategy, ValueTree};
    use proptest::test_runner::{Config, RngSeed, TestRunner};
    let mut out = Vec::new();
    let mut runner = TestRunner::new(Config { rng_seed: RngSeed::Fixed(20), failure_persistence: None, ..Config::default() });
    for round in 0..3 {
        let seed = match doc_seed().new_tree(&mut runner) {
            Ok(t) => t.current(),
            Err(_) => continue,
        };
        for (i, k) in DOC_KINDS.iter().enumerate() {
            for tagged in [false, true] {
                if tagged && matches!(k, DocKind::CalType | DocKind::FXRate | DocKind::Number | DocKind::CurveDF) {
                    continue;
                }
                if let Ok(Ok(text)) = catch(|| valid_document(k, tagged, &seed)) {
                    if text.len() < 6000 || round == 0 {
                        let mut bytes = vec![(i + if tagged { 14 } else { 0 }) as u8];
                        bytes.extend(text.as_bytes());
                        out.push(bytes);
                    }
                }
            }
        }
    }
    out
}
