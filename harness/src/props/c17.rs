//! C17 - Gradients are read back by name, in the order asked for.

use crate::engine::*;
use crate::props::adcommon::{name_of, NAMES};
use crate::util::*;
use proptest::prelude::*;
use rateslib::dual::{Dual, Dual2, Gradient1, Gradient2};
use serde::{Deserialize, Serialize};

/// A stored number: layout (ordered distinct names), first-order coefficients, and a full
/// (possibly non-symmetric) second-order storage matrix, row-major over the layout.
#[derive(Clone, Debug, Serialize, Deserialize)]
pub struct Num {
    pub real: Fl,
    pub layout: Vec<u8>,
    pub d1: Vec<Fl>,
    pub d2: Vec<Fl>,
    pub symmetric: bool,
}

impl Num {
    fn n(&self) -> usize {
        self.layout.len()
    }
    fn names(&self) -> Vec<String> {
        self.layout.iter().map(|i| name_of(*i)).collect()
    }
    fn d1v(&self) -> Vec<f64> {
        (0..self.n()).map(|i| self.d1.get(i).map_or(0.0, |f| f.0)).collect()
    }
    fn d2m(&self) -> Vec<f64> {
        let n = self.n();
        let mut m = vec![0.0; n * n];
        for i in 0..n {
            for j in 0..n {
                let (a, b) = if self.symmetric && j < i { (j, i) } else { (i, j) };
                // (short lists index a fixed 5 x 5 block, wide lists an n x n block)
                let stride = if n <= 5 { 5 } else { n };
                m[i * n + j] = self.d2.get(a * stride + b).map_or(0.0, |f| f.0);
            }
        }
        m
    }
    fn stored1(&self, name: u8) -> f64 {
        self.layout.iter().position(|n| *n == name).map_or(0.0, |p| self.d1v()[p])
    }
    fn stored2(&self, a: u8, b: u8) -> f64 {
        match (self.layout.iter().position(|n| *n == a), self.layout.iter().position(|n| *n == b)) {
            (Some(i), Some(j)) => self.d2m()[i * self.n() + j],
            _ => 0.0,
        }
    }
    fn has16(&self, name: u16) -> bool {
        u8::try_from(name).map_or(false, |b| self.layout.contains(&b))
    }
    fn stored1_16(&self, name: u16) -> f64 {
        u8::try_from(name).map_or(0.0, |b| self.stored1(b))
    }
    fn stored2_16(&self, a: u16, b: u16) -> f64 {
        match (u8::try_from(a), u8::try_from(b)) {
            (Ok(a), Ok(b)) => self.stored2(a, b),
            _ => 0.0,
        }
    }
    fn dual(&self) -> Dual {
        if self.n() == 0 { Dual::new(self.real.0, vec![]) } else { Dual::try_new(self.real.0, self.names(), self.d1v()).expect("num") }
    }
    fn dual2(&self) -> Dual2 {
        if self.n() == 0 { Dual2::new(self.real.0, vec![]) } else { Dual2::try_new(self.real.0, self.names(), self.d1v(), self.d2m()).expect("num") }
    }
}

#[derive(Clone, Debug, Serialize, Deserialize)]
pub struct Case {
    pub f: Num,
    /// second number for the product-rule identity
    pub g: Num,
    /// requested names: distinct, any order, present or absent
    pub request: Vec<u16>,
}

pub struct C17;

/// name of a requested index: the one-byte pool and wide names below 256, "w<i>" beyond
fn name16(i: u16) -> String {
    u8::try_from(i).map_or_else(|_| format!("w{}", i), name_of)
}

fn layout8(max: usize) -> impl Strategy<Value = Vec<u8>> {
    proptest::collection::vec(0u8..8, 0..=max).prop_map(|v| {
        let mut out = Vec::new();
        for x in v {
            if !out.contains(&x) {
                out.push(x);
            }
        }
        out
    })
}

fn num() -> impl Strategy<Value = Num> {
    (moderate(), layout8(5), proptest::collection::vec(coeff(), 5), proptest::collection::vec(coeff(), 25), prop::bool::weighted(0.6))
        .prop_map(|(real, layout, d1, d2, symmetric)| Num { real, layout, d1, d2, symmetric })
}

#[derive(Clone, Debug)]
enum Req {
    Stored,
    Reversed,
    Subset(u16),
    Superset(Vec<u8>, u16),
    Free(Vec<u8>),
    Empty,
}

fn case_strategy() -> impl Strategy<Value = Case> {
    let req = prop_oneof![
        3 => Just(Req::Stored),
        2 => Just(Req::Reversed),
        2 => any::<u16>().prop_map(Req::Subset),
        3 => (layout8(3), any::<u16>()).prop_map(|(l, p)| Req::Superset(l, p)),
        3 => layout8(6).prop_map(Req::Free),
        1 => Just(Req::Empty),
    ];
    (num(), num(), req).prop_map(|(f, g, req)| {
        let request = match req {
            Req::Stored => f.layout.iter().map(|x| *x as u16).collect(),
            Req::Reversed => f.layout.iter().rev().map(|x| *x as u16).collect(),
            Req::Subset(m) => f.layout.iter().enumerate().filter(|(i, _)| (m >> i) & 1 == 1).map(|(_, n)| *n as u16).collect(),
            Req::Superset(extra, pos) => {
                let mut r: Vec<u16> = f.layout.iter().map(|x| *x as u16).collect();
                for (k, e) in extra.iter().enumerate() {
                    if !r.contains(&(*e as u16)) {
                        let p = pick(pos.wrapping_mul(k as u16 * 7 + 3), r.len() + 1);
                        r.insert(p, *e as u16);
                    }
                }
                r
            }
            Req::Free(l) => l.into_iter().map(|x| x as u16).collect(),
            Req::Empty => vec![],
        };
        Case { f, g, request }
    })
}

/// Wide variable lists (curves with many nodes): 17-40 names out of 100; the request is the stored
/// list with two names swapped, with one name replaced by an absent one, reversed, or itself.
fn wide_case_strategy() -> impl Strategy<Value = Case> {
    let wide_num = || (moderate(), proptest::collection::vec(any::<u16>(), 100), 17usize..=40, proptest::collection::vec(coeff(), 40), proptest::collection::vec((any::<u16>(), any::<u16>(), coeff()), 4..30), any::<bool>()).prop_map(|(real, keys, n, d1, h, symmetric)| {
        let mut idx: Vec<u8> = (0u8..100).collect();
        idx.sort_by_key(|i| keys[*i as usize]);
        idx.truncate(n);
        let mut d2 = vec![Fl(0.0); n * n];
        for (i, j, c) in h {
            let (i, j) = (pick(i, n), pick(j, n));
            d2[i * n + j] = c;
            if symmetric {
                d2[j * n + i] = c;
            }
        }
        d2[1] = Fl(0.375); // (0, 1): content among the leading names
        if symmetric {
            d2[n] = Fl(0.375);
        }
        Num { real, layout: idx, d1: d1[..n].to_vec(), d2, symmetric }
    });
    (wide_num(), wide_num(), 0u8..5, any::<u16>(), any::<u16>(), 100u8..120).prop_map(|(f, mut g, mode, s1, s2, absent)| {
        let n = f.layout.len();
        let mut request: Vec<u16> = f.layout.iter().map(|x| *x as u16).collect();
        match mode {
            0 => {}
            1 => request.reverse(),
            2 => request.swap(pick(s1, n - 16), pick(s2, n)),          // an early name against any other
            3 => request.swap(pick(s1, n - 16), pick(s2, n - 16).max(1) - 1), // two early names
            _ => request[pick(s1, n - 16)] = absent as u16,                 // an early name replaced by an absent one
        }
        // g on f's list with two early names swapped: the product rule then meets the same layouts
        if mode >= 2 {
            let mut gl = f.layout.clone();
            gl.swap(0, pick(s2, n - 16).max(1));
            g.layout = gl;
            g.d1.truncate(n);
            while g.d1.len() < n { g.d1.push(Fl(0.25)); }
            g.d2 = (0..n * n).map(|k| g.d2.get(k).cloned().unwrap_or(Fl(0.0))).collect();
        }
        Case { f, g, request }
    })
}

/// Requests of 257-320 names (a Hessian read against a few hundred solver variables): the stored
/// number is short (<= 5 names), its names sit anywhere in the request, one always near the end.
fn long_request_strategy() -> impl Strategy<Value = Case> {
    (num(), num(), 257usize..=320, proptest::collection::vec(any::<u16>(), 12), any::<bool>()).prop_map(|(f, g, len, pos, reverse)| {
        // names 300.. are foreign to the stored numbers (which use the pool 0..8)
        let mut request: Vec<u16> = (300u16..).take(len).collect();
        for (k, n) in f.layout.iter().enumerate() {
            let p = if k == 0 { len - 1 - pick(pos[0], 10) } else { pick(pos[k % 12], len) };
            request[p] = *n as u16;
        }
        let mut seen = std::collections::HashSet::new();
        request.retain(|x| seen.insert(*x));
        if reverse {
            request.reverse();
        }
        Case { f, g, request }
    })
}

impl Property for C17 {
    type Case = Case;
    fn id(&self) -> &'static str {
        "C17"
    }

    fn check(&self, c: &Case) -> Verdict {
        let mut v = Verdict::new();
        let req = &c.request;
        let req_names: Vec<String> = req.iter().map(|i| name16(*i)).collect();
        let absent = req.iter().any(|r| !c.f.has16(*r));
        let fast = req.len() == c.f.layout.len() && req.iter().zip(c.f.layout.iter()).all(|(a, b)| *a == *b as u16);
        v.label(if fast { "path:fast (request == stored list)" } else { "path:lookup" });
        v.label_if(absent, "request:absent-name");
        v.label_if(req.is_empty(), "request:empty");
        v.label_if(req.len() > 256, "request:>256-names");
        v.label_if(!c.f.symmetric, "stored:non-symmetric");
        v.nt(!fast && absent && !req.is_empty());
        let m = req.len();

        // first order type
        let d = c.f.dual();
        match catch(|| d.gradient1(req_names.clone())) {
            Ok(g) => {
                if g.len() != m || (0..m).any(|i| g[i].to_bits() != c.f.stored1_16(req[i]).to_bits() && !(g[i] == 0.0 && c.f.stored1_16(req[i]) == 0.0)) {
                    v.fail("Dual::gradient1 | not the stored coefficients in the requested order", format!("stored {:?} on {:?}, requested {:?}, got {:?}", c.f.d1v(), c.f.names(), req_names, g.to_vec()));
                    return v;
                }
            }
            Err(p) => {
                v.fail(format!("Dual::gradient1 | panic | {}", p.site()), p.message);
                return v;
            }
        }
        // second order type
        let d2 = c.f.dual2();
        let (g1, g2, man) = match catch(|| (d2.gradient1(req_names.clone()), d2.gradient2(req_names.clone()), d2.gradient1_manifold(req_names.clone()))) {
            Ok(x) => x,
            Err(p) => {
                v.fail(format!("Dual2 gradients | panic | {}", p.site()), p.message);
                return v;
            }
        };
        let same = |a: f64, b: f64| a.to_bits() == b.to_bits() || (a == 0.0 && b == 0.0);
        if g1.len() != m || (0..m).any(|i| !same(g1[i], c.f.stored1_16(req[i]))) {
            v.fail("Dual2::gradient1 | not the stored coefficients in the requested order", format!("stored {:?} on {:?}, requested {:?}, got {:?}", c.f.d1v(), c.f.names(), req_names, g1.to_vec()));
            return v;
        }
        if g2.dim() != (m, m) {
            v.fail("Dual2::gradient2 | wrong shape", format!("{:?} for {} names", g2.dim(), m));
            return v;
        }
        for i in 0..m {
            for j in 0..m {
                let exp = 2.0 * c.f.stored2_16(req[i], req[j]);
                if !same(g2[[i, j]], exp) {
                    v.fail(
                        "Dual2::gradient2 | not twice the stored coefficient in the requested order",
                        format!("entry ({}, {}): got {:e}, expected {:e}; stored on {:?}, requested {:?}", req_names[i], req_names[j], g2[[i, j]], exp, c.f.names(), req_names),
                    );
                    return v;
                }
            }
        }
        // manifold
        if man.len() != m {
            v.fail("gradient1_manifold | wrong length", format!("{} for {} names", man.len(), m));
            return v;
        }
        for i in 0..m {
            let mi = &man[i];
            if !same(mi.real(), g1[i]) {
                v.fail("gradient1_manifold | value is not the first derivative", format!("entry {}: {:e} vs {:e}", req_names[i], mi.real(), g1[i]));
                return v;
            }
            let own = mi.gradient1(req_names.clone());
            for j in 0..m {
                if !same(own[j], g2[[i, j]]) {
                    v.fail(
                        if c.f.has16(req[i]) { "gradient1_manifold | own gradient is not the Hessian row" } else { "gradient1_manifold | absent name does not have a zero gradient" },
                        format!("entry {} (stored on {:?}, requested {:?}): own gradient {:?}, Hessian row {:?}", req_names[i], c.f.names(), req_names, own.to_vec(), g2.row(i).to_vec()),
                    );
                    return v;
                }
            }
            if mi.gradient2(req_names.clone()).iter().any(|x| *x != 0.0) {
                v.fail("gradient1_manifold | second-order part is not zero", format!("entry {}", req_names[i]));
                return v;
            }
        }
        // product rule on manifolds reproduces the second derivatives of a product
        let gd = c.g.dual2();
        let ident = c.f.n() >= 2 && c.f.d2m().iter().any(|x| *x != 0.0) && c.f.symmetric && c.g.symmetric;
        v.label_if(ident, "identity:checked");
        if c.f.symmetric && c.g.symmetric {
            match catch(|| {
                let mf = d2.gradient1_manifold(req_names.clone());
                let mg = gd.gradient1_manifold(req_names.clone());
                let prod = (&d2 * &gd).gradient2(req_names.clone());
                let rows: Vec<Vec<f64>> = (0..m).map(|i| (&(&mf[i] * &gd) + &(&d2 * &mg[i])).gradient1(req_names.clone()).to_vec()).collect();
                (prod, rows)
            }) {
                Ok((prod, rows)) => {
                    for i in 0..m {
                        for j in 0..m {
                            // scale: sum of absolute terms of d2(fg)/didj
                            let (fi, fj, gi, gj) = (c.f.stored1_16(req[i]), c.f.stored1_16(req[j]), c.g.stored1_16(req[i]), c.g.stored1_16(req[j]));
                            let scale = (2.0 * c.f.stored2_16(req[i], req[j]) * c.g.real.0).abs() + (2.0 * c.g.stored2_16(req[i], req[j]) * c.f.real.0).abs() + (fi * gj).abs() + (fj * gi).abs();
                            if !((rows[i][j] - prod[[i, j]]).abs() <= 1e-12 * scale + 1e-300) {
                                v.fail(
                                    if c.f.has16(req[i]) || c.g.has16(req[i]) { "product rule on manifolds does not reproduce the Hessian of the product" } else { "product rule on manifolds | absent name" },
                                    format!("row {} col {}: manifold product rule {:e}, Hessian of product {:e}", req_names[i], req_names[j], rows[i][j], prod[[i, j]]),
                                );
                                return v;
                            }
                        }
                    }
                }
                Err(p) => {
                    v.fail(format!("product identity | panic | {}", p.site()), p.message);
                }
            }
        }
        v
    }

    fn plan(&self, tier: Tier) -> Vec<Stage<Case>> {
        vec![Stage::random("random", tier.pick(1_000_000, 25_000_000), case_strategy), Stage::random("wide-lists", tier.pick(20_000, 600_000), wide_case_strategy), Stage::random("long-requests", tier.pick(300, 20_000), long_request_strategy)]
    }

    fn rule(&self) -> String {
        "random (stored number on a layout of 0-5 of 8 names with arbitrary coefficients, symmetric or non-symmetric second-order storage; a second number; a requested list of distinct names: the stored list itself (fast path), reversed, subset, superset with absent names inserted at any position, free list, empty). Wide stage: stored numbers on 17-40 of 100 names, request = stored list / reversed / two names swapped (early ones in particular) / an early name replaced by an absent one. Long-request stage: a short stored number read against 257-320 requested names, its own names anywhere among them and always one near the end. Oracle: gradient1 = stored coefficient or 0, gradient2 = 2 x stored or 0, both exact and in the requested order; gradient1_manifold entries have value = first derivative, own gradient = Hessian row (zeros for an absent name), zero second-order part; product rule on manifolds == Hessian of the product (1e-12 x sum of absolute terms). Non-trivial: requested order != stored order and an absent name is requested.".into()
    }

    fn floors(&self, tier: Tier) -> Vec<Floor> {
        let n = tier.pick(1_000_000u64, 25_000_000);
        vec![
            Floor { label: "path:fast (request == stored list)", min: n * 15 / 100 },
            Floor { label: "path:lookup", min: n * 15 / 100 },
            Floor { label: "request:absent-name", min: n / 5 },
            Floor { label: "request:>256-names", min: n / 5000 },
            Floor { label: "identity:checked", min: n / 10 },
            Floor { label: "stored:non-symmetric", min: n / 5 },
        ]
    }
}
