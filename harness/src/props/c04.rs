//! C04 - Date adjustment lands on the nearest eligible business day in its direction.

use crate::engine::*;
use crate::gen::cal::*;
use crate::model::civil;
use crate::model::roll::Preds;
use crate::util::*;
use proptest::prelude::*;
use rateslib::calendars::{CalType, DateRoll, Modifier};
use serde::{Deserialize, Serialize};

#[derive(Clone, Debug, Serialize, Deserialize)]
pub struct Case {
    pub cal: AnyCal,
    pub day: i64,
    /// 0 Act, 1 F, 2 ModF, 3 P, 4 ModP
    pub modifier: u8,
    pub settlement: bool,
}

pub fn modifier_of(m: u8) -> Modifier {
    match m {
        0 => Modifier::Act,
        1 => Modifier::F,
        2 => Modifier::ModF,
        3 => Modifier::P,
        _ => Modifier::ModP,
    }
}

pub const MOD_NAMES: [&str; 5] = ["Act", "F", "ModF", "P", "ModP"];

pub struct C04;

/// The unions swept exhaustively in the thorough tier (typical FX / cross-market set-ups).
pub const SWEEP_UNIONS: [&str; 6] = [
    "tgt|nyc",
    "ldn,tgt|nyc",
    "nyc,ldn",
    "tyo|fed",
    "stk,osl|tgt,nyc",
    "syd,wlg|mum",
];

fn case_strategy() -> impl Strategy<Value = Case> {
    (
        base_day(),
        any_cal_rel(45),
        prop_oneof![3 => -15i64..=15, 1 => -50i64..=50],
        0u8..5,
        any::<bool>(),
    )
        .prop_map(|(b, cal, off, modifier, settlement)| Case {
            cal: cal.shift(b),
            day: b + off,
            modifier,
            settlement,
        })
}

impl C04 {
    fn check_with(&self, c: &Case, cal: &CalType, v: &mut Verdict) {
        let bus = |z: i64| cal.is_bus_day(&day_to_ndt(z));
        let settle = |z: i64| cal.is_settlement(&day_to_ndt(z));
        let preds = Preds {
            bus: &bus,
            settle: &settle,
        };
        let date = day_to_ndt(c.day);
        let modifier = modifier_of(c.modifier);
        let mname = MOD_NAMES[c.modifier as usize];

        let expected = match preds.roll(c.day, c.modifier, c.settlement) {
            Ok(e) => e,
            Err(_) => {
                v.fail("generator | walk cap exceeded", "calendar has no eligible day within the cap");
                return;
            }
        };
        let got = match catch(|| cal.roll(&date, &modifier, c.settlement)) {
            Ok(g) => g,
            Err(p) => {
                v.fail(
                    format!("roll | panic | {}", p.site()),
                    format!("roll({}, {}, settlement={}) panicked: {}", fmt_day(c.day), mname, c.settlement, p.message),
                );
                return;
            }
        };
        let (gz, gs) = ndt_to_day(&got);
        let eligible_in = preds.eligible(c.day, c.settlement);
        // the eligibility predicates the walk relies on mean what the combination rule says:
        // checked, from the calendar's parts, on every date between the input and the result
        for z in c.day.min(gz).max(c.day - 40)..=c.day.max(gz).min(c.day + 40) {
            let (mb, ms) = c.cal.model_eligibility(z);
            if bus(z) != mb || settle(z) != ms {
                v.fail(
                    "eligibility | is_bus_day / is_settlement differ from the definition by parts",
                    format!("{}: is_bus_day {} (by parts {}), is_settlement {} (by parts {})", fmt_day(z), bus(z), mb, settle(z), ms),
                );
                return;
            }
        }

        // classification
        v.label(c.cal.kind());
        v.label(intern(format!("mod:{}", mname)));
        v.label_if(c.settlement, "settlement:on");
        v.nt(!eligible_in && c.modifier != 0);
        if c.modifier != 0 && !eligible_in {
            v.label("moved");
            let plain = preds.roll(c.day, c.modifier, false).unwrap_or(expected);
            v.label_if(c.settlement && plain != expected, "skip-unsettled");
            v.label_if((expected - c.day).abs() >= 3, "gap>=3");
            if c.modifier == 2 && expected < c.day || c.modifier == 4 && expected > c.day {
                v.label("reversal");
            }
        }

        if gs != 0 || gz != expected {
            v.fail(
                format!("roll | wrong date | {}", mname),
                format!(
                    "roll({}, {}, settlement={}) returned {} but the nearest eligible day by a day-by-day walk is {}",
                    fmt_day(c.day), mname, c.settlement, fmt_ndt(&got), fmt_day(expected)
                ),
            );
            return;
        }
        // laws stated in the property
        if eligible_in && gz != c.day {
            v.fail("roll | eligible date moved", format!("{} is eligible but moved to {}", fmt_day(c.day), fmt_day(gz)));
            return;
        }
        match catch(|| cal.roll(&got, &modifier, c.settlement)) {
            Ok(again) => {
                if again != got {
                    v.fail(
                        format!("roll | not idempotent | {}", mname),
                        format!("roll(roll({})) = {} != roll = {}", fmt_day(c.day), fmt_ndt(&again), fmt_ndt(&got)),
                    );
                    return;
                }
            }
            Err(p) => {
                v.fail(format!("roll | panic | {}", p.site()), p.message);
                return;
            }
        }
        // the individually named adjustment methods must agree with the same walk
        let named: [(&str, u8, bool, chrono::NaiveDateTime); 8] = [
            ("roll_forward_bus_day", 1, false, cal.roll_forward_bus_day(&date)),
            ("roll_backward_bus_day", 3, false, cal.roll_backward_bus_day(&date)),
            ("roll_mod_forward_bus_day", 2, false, cal.roll_mod_forward_bus_day(&date)),
            ("roll_mod_backward_bus_day", 4, false, cal.roll_mod_backward_bus_day(&date)),
            ("roll_forward_settled_bus_day", 1, true, cal.roll_forward_settled_bus_day(&date)),
            ("roll_backward_settled_bus_day", 3, true, cal.roll_backward_settled_bus_day(&date)),
            ("roll_forward_mod_settled_bus_day", 2, true, cal.roll_forward_mod_settled_bus_day(&date)),
            ("roll_backward_mod_settled_bus_day", 4, true, cal.roll_backward_mod_settled_bus_day(&date)),
        ];
        for (name, m, s, got) in named {
            let exp = preds.roll(c.day, m, s).unwrap_or(i64::MIN);
            if ndt_to_day(&got) != (exp, 0) {
                v.fail(
                    format!("{} | wrong date", name),
                    format!("{}({}) = {} but the walk gives {}", name, fmt_day(c.day), fmt_ndt(&got), fmt_day(exp)),
                );
                return;
            }
        }
    }
}

impl Property for C04 {
    type Case = Case;
    fn id(&self) -> &'static str {
        "C04"
    }

    fn check(&self, c: &Case) -> Verdict {
        let mut v = Verdict::new();
        let cal = c.cal.build_cached();
        self.check_with(c, &cal, &mut v);
        v
    }

    fn plan(&self, tier: Tier) -> Vec<Stage<Case>> {
        let mut plan = vec![Stage::random(
            "random-calendars",
            tier.pick(300_000, 12_000_000),
            case_strategy,
        )];
        // exhaustive sweep over the built-in calendars (all dates x 5 modifiers x 2 flags);
        // the quick tier sweeps a 30-year window, the thorough tier the whole supported range
        let (lo, hi) = match tier {
            Tier::Quick => (civil::days_from_civil(2010, 1, 1), civil::days_from_civil(2040, 12, 31)),
            Tier::Thorough => (civil::DAY_MIN, civil::day_max()),
        };
        let names: Vec<String> = BUILTIN
            .iter()
            .map(|s| s.to_string())
            .chain(SWEEP_UNIONS.iter().map(|s| s.to_string()))
            .collect();
        plan.push(Stage::enumerate(
            "builtin-sweep",
            tier == Tier::Thorough,
            true,
            move |k, n| {
                let names = names.clone();
                let days = chunk((hi - lo + 1) as usize, k, n);
                Box::new(names.into_iter().flat_map(move |name| {
                    let days = days.clone();
                    days.flat_map(move |d| {
                        let name = name.clone();
                        (0u8..5).flat_map(move |m| {
                            let name = name.clone();
                            [false, true].into_iter().map(move |s| Case {
                                cal: AnyCal::Named(name.clone()),
                                day: lo + d as i64,
                                modifier: m,
                                settlement: s,
                            })
                        })
                    })
                }))
            },
        ));
        plan
    }

    fn rule(&self) -> String {
        "random stage: (calendar, date, modifier, settlement flag) with calendars drawn as plain / combined (1-3 members, optional 0-2 settlement calendars, built-in members mixed in) / named strings, week masks with 1-7 working days, holidays as runs and singles within +-60 days of a base day weighted to month ends, year ends and Easter; sweep stage: every date of the window x 5 modifiers x 2 flags for the 14 built-in calendars and 6 typical combinations. Oracle: day-by-day walk over the object's own is_bus_day / is_settlement, which are themselves compared, on every date between input and result, with the definition by parts (business day in every member; settlement day = business day in every settlement calendar). Non-trivial: the input date is not eligible and the modifier is not Act; distinct = distinct (calendar, date, modifier, flag) tuples.".into()
    }

    fn floors(&self, tier: Tier) -> Vec<Floor> {
        let n = tier.pick(300_000u64, 12_000_000);
        vec![
            Floor { label: "reversal", min: n / 200 },
            Floor { label: "skip-unsettled", min: n / 200 },
            Floor { label: "gap>=3", min: n / 50 },
            Floor { label: "cal:union+settle", min: n / 20 },
            Floor { label: "cal:named+settle", min: n / 100 },
        ]
    }

    fn assumptions(&self) -> Vec<String> {
        vec![
            "is_bus_day of a plain calendar (a leaf: week mask + holiday list) is taken as ground truth for built-in parts (the tables are C07's subject); the combination rule is re-derived from the parts".into(),
            "dates are midnight timestamps, as every caller passes".into(),
            "single holiday runs are at most 160 days long (mostly 1-12, sometimes a whole month, rarely 100-160 days); runs of several members can chain to closures of more than a year (finding 13: the library used to compare month numbers only)".into(),
        ]
    }
}
