//! C11 - Curve look-ups follow each interpolation rule at, between and beyond nodes.

use crate::engine::*;
use crate::model::interp::*;
use crate::util::*;
use indexmap::IndexMap;
use proptest::prelude::*;
use rateslib::calendars::{Cal, CalType, Convention, Modifier};
use rateslib::curves::{CurveDF, FlatBackwardInterpolator, FlatForwardInterpolator, LinearInterpolator, LinearZeroRateInterpolator, LogLinearInterpolator, Nodes};
use rateslib::dual::{ADOrder, Dual, Dual2, Number};
use rateslib::verif_hooks::{index_left_f64, index_left_i64, VCurve, VInterp};
use serde::{Deserialize, Serialize};

#[derive(Clone, Debug, Serialize, Deserialize)]
pub enum Case {
    Curve {
        /// 0 linear, 1 log-linear, 2 linear zero rate, 3 flat forward, 4 flat backward
        rule: u8,
        /// (timestamp seconds, value) in supply order; timestamps distinct
        nodes: Vec<(i64, Fl)>,
        queries: Vec<i64>,
        /// number kind of the node values given to the generic constructor: 0 float, 1 first-order, 2 second-order
        #[serde(default)]
        kind: u8,
    },
    IndexLeft {
        list: Vec<Fl>,
        probes: Vec<Fl>,
    },
}

pub struct C11;

pub fn rule_of(r: u8) -> Rule {
    RULES[r as usize % 5]
}

pub fn vinterp_of(r: Rule) -> VInterp {
    match r {
        Rule::Linear => VInterp::Linear,
        Rule::LogLinear => VInterp::LogLinear,
        Rule::LinearZeroRate => VInterp::LinearZeroRate,
        Rule::FlatForward => VInterp::FlatForward,
        Rule::FlatBackward => VInterp::FlatBackward,
    }
}

pub fn plain_cal() -> Cal {
    Cal::new(vec![], vec![5, 6])
}

/// A curve built through the generic public constructor, erased over the interpolator type.
pub enum AnyCurve {
    Linear(CurveDF<LinearInterpolator, Cal>),
    LogLinear(CurveDF<LogLinearInterpolator, Cal>),
    ZeroRate(CurveDF<LinearZeroRateInterpolator, Cal>),
    FlatForward(CurveDF<FlatForwardInterpolator, Cal>),
    FlatBackward(CurveDF<FlatBackwardInterpolator, Cal>),
}

macro_rules! each_curve {
    ($self:expr, $c:ident => $body:expr) => {
        match $self {
            AnyCurve::Linear($c) => $body,
            AnyCurve::LogLinear($c) => $body,
            AnyCurve::ZeroRate($c) => $body,
            AnyCurve::FlatForward($c) => $body,
            AnyCurve::FlatBackward($c) => $body,
        }
    };
}

impl AnyCurve {
    pub fn new(rule: Rule, nodes: Nodes, id: &str, index_base: Option<f64>) -> AnyCurve {
        let (conv, modi) = (Convention::Act360, Modifier::ModF);
        match rule {
            Rule::Linear => AnyCurve::Linear(CurveDF::try_new(nodes, LinearInterpolator::new(), id, conv, modi, index_base, plain_cal()).expect("curve")),
            Rule::LogLinear => AnyCurve::LogLinear(CurveDF::try_new(nodes, LogLinearInterpolator::new(), id, conv, modi, index_base, plain_cal()).expect("curve")),
            Rule::LinearZeroRate => AnyCurve::ZeroRate(CurveDF::try_new(nodes, LinearZeroRateInterpolator::new(), id, conv, modi, index_base, plain_cal()).expect("curve")),
            Rule::FlatForward => AnyCurve::FlatForward(CurveDF::try_new(nodes, FlatForwardInterpolator::new(), id, conv, modi, index_base, plain_cal()).expect("curve")),
            Rule::FlatBackward => AnyCurve::FlatBackward(CurveDF::try_new(nodes, FlatBackwardInterpolator::new(), id, conv, modi, index_base, plain_cal()).expect("curve")),
        }
    }
    pub fn value(&self, d: &chrono::NaiveDateTime) -> Number {
        each_curve!(self, c => c.interpolated_value(d))
    }
    pub fn node_index(&self, ts: i64) -> usize {
        each_curve!(self, c => c.node_index(ts))
    }
    pub fn set_ad_order(&mut self, ad: ADOrder) -> Result<(), pyo3::PyErr> {
        each_curve!(self, c => c.set_ad_order(ad))
    }
    pub fn ad(&self) -> ADOrder {
        each_curve!(self, c => c.ad())
    }
    pub fn index_value(&self, d: &chrono::NaiveDateTime) -> Result<Number, pyo3::PyErr> {
        each_curve!(self, c => c.index_value(d))
    }
    pub fn equals(&self, other: &AnyCurve) -> bool {
        match (self, other) {
            (AnyCurve::Linear(a), AnyCurve::Linear(b)) => a == b,
            (AnyCurve::LogLinear(a), AnyCurve::LogLinear(b)) => a == b,
            (AnyCurve::ZeroRate(a), AnyCurve::ZeroRate(b)) => a == b,
            (AnyCurve::FlatForward(a), AnyCurve::FlatForward(b)) => a == b,
            (AnyCurve::FlatBackward(a), AnyCurve::FlatBackward(b)) => a == b,
            _ => false,
        }
    }
}

/// Node sets: 2-12 nodes, distinct timestamps with spacings from 1 second to about 6 years
/// (mostly whole days), positive values, supplied in shuffled order.
pub fn node_set() -> impl Strategy<Value = Vec<(i64, Fl)>> {
    let spacing = prop_oneof![
        6 => (1i64..=2200).prop_map(|d| d * 86400),
        1 => 1i64..=86400,
        1 => Just(1i64),
        1 => (1i64..=200_000_000),
    ];
    let value = prop_oneof![
        3 => (0.2f64..1.2).prop_map(Fl),
        1 => log_uniform(0.01, 100.0),
    ];
    (
        (-400i64..=20_000).prop_map(|d| d * 86400),
        proptest::collection::vec((spacing, value), 2..=12),
        any::<u32>(),
    )
        .prop_map(|(start, steps, shuffle)| {
            let mut t = start;
            let mut nodes: Vec<(i64, Fl)> = Vec::new();
            // flat sections: in a fifth of the curves neighbouring nodes repeat a value exactly (a
            // zero-forward period, a flat value curve), and some curves are all ones (the starting
            // point of a calibration) - independent draws would never be equal
            let flat = (shuffle >> 12) % 5 == 0;
            let all_ones = (shuffle >> 12) % 25 == 5;
            for (i, (dt, v)) in steps.into_iter().enumerate() {
                if i > 0 {
                    t += dt;
                }
                let v = if all_ones {
                    Fl(1.0)
                } else if flat && i > 0 && (shuffle >> (16 + i % 12)) & 1 == 1 {
                    nodes[i - 1].1
                } else {
                    v
                };
                nodes.push((t, v));
            }
            // deterministic shuffle of the supply order from the drawn bits
            let n = nodes.len();
            let k = (shuffle as usize) % n;
            nodes.rotate_left(k);
            if (shuffle >> 8) & 1 == 1 {
                nodes.reverse();
            }
            if (shuffle >> 9) & 1 == 1 && n > 2 {
                nodes.swap(0, n / 2);
            }
            if (shuffle >> 10) & 3 == 0 {
                nodes.sort_by_key(|x| x.0); // sometimes already sorted
            }
            nodes
        })
}

#[derive(Clone, Debug)]
pub enum Q {
    Before(i64),
    After(i64),
    AtNode(u16, i64),
    Mid(u16),
    Uniform(u16, u16),
}

pub fn query_spec() -> impl Strategy<Value = Q> {
    prop_oneof![
        2 => (1i64..=4_000_000).prop_map(Q::Before),
        2 => (1i64..=4_000_000).prop_map(Q::After),
        4 => (any::<u16>(), prop::sample::select(vec![0i64, 0, 0, 1, -1])).prop_map(|(i, o)| Q::AtNode(i, o)),
        2 => any::<u16>().prop_map(Q::Mid),
        4 => (any::<u16>(), any::<u16>()).prop_map(|(i, f)| Q::Uniform(i, f)),
    ]
}

pub fn resolve_queries(nodes: &[(i64, Fl)], qs: &[Q]) -> Vec<i64> {
    let mut times: Vec<i64> = nodes.iter().map(|n| n.0).collect();
    times.sort();
    let n = times.len();
    qs.iter()
        .map(|q| match q {
            Q::Before(d) => times[0] - d,
            Q::After(d) => times[n - 1] + d,
            Q::AtNode(i, o) => times[pick(*i, n)] + o,
            Q::Mid(i) => {
                let k = pick(*i, n - 1);
                times[k] + (times[k + 1] - times[k]) / 2
            }
            Q::Uniform(i, f) => {
                let k = pick(*i, n - 1);
                times[k] + ((times[k + 1] - times[k]) as i128 * (*f as i128) / 65536) as i64
            }
        })
        .collect()
}

fn next_up(x: f64) -> f64 {
    if x > 0.0 {
        f64::from_bits(x.to_bits() + 1)
    } else if x < 0.0 {
        f64::from_bits(x.to_bits() - 1)
    } else {
        f64::MIN_POSITIVE
    }
}

fn case_strategy() -> impl Strategy<Value = Case> {
    prop_oneof![
        8 => (0u8..5, node_set(), proptest::collection::vec(query_spec(), 1..8), prop::sample::select(vec![0u8, 0, 1, 2])).prop_map(|(rule, nodes, qs, kind)| {
            let queries = resolve_queries(&nodes, &qs);
            Case::Curve { rule, nodes, queries, kind }
        }),
        2 => (proptest::collection::vec(0.01f64..10.0, 2..14), proptest::collection::vec((any::<u16>(), -1i8..=1, 0.0f64..1.0), 1..8), (-50.0f64..50.0)).prop_map(|(steps, probes, start)| {
            let mut x = start;
            let mut list = Vec::new();
            for s in steps {
                list.push(Fl(x));
                x += s;
            }
            let n = list.len();
            let probes = probes
                .into_iter()
                .map(|(i, mode, f)| {
                    let k = pick(i, n);
                    match mode {
                        0 => list[k],                                                            // exactly at an entry
                        -1 => Fl(if k == 0 { list[0].0 - 1.0 - f } else { list[k - 1].0 + (list[k].0 - list[k - 1].0) * f }), // before / between
                        _ => Fl(if k == n - 1 { list[n - 1].0 + 0.5 + f } else { next_up(list[k].0) }), // after / just above
                    }
                })
                .collect();
            Case::IndexLeft { list, probes }
        }),
    ]
}

impl Property for C11 {
    type Case = Case;
    fn id(&self) -> &'static str {
        "C11"
    }

    fn check(&self, c: &Case) -> Verdict {
        let mut v = Verdict::new();
        match c {
            Case::IndexLeft { list, probes } => {
                v.label("kind:index_left");
                let l = fls(list);
                v.nt(l.len() >= 3);
                for p in probes {
                    let x = p.0;
                    let first_ge = l.iter().position(|t| *t >= x).unwrap_or(l.len());
                    let exp = first_ge.saturating_sub(1).min(l.len() - 2);
                    match catch(|| index_left_f64(&l, x)) {
                        Ok(got) if got == exp => {}
                        Ok(got) => {
                            v.fail("index_left | not the interval whose right end is the first entry >= x (clamped)", format!("list {:?}, value {:?}: got {}, expected {}", l, x, got, exp));
                            return v;
                        }
                        Err(pn) => {
                            v.fail(format!("index_left | panic | {}", pn.site()), pn.message);
                            return v;
                        }
                    }
                }
            }
            Case::Curve { rule, nodes, queries, kind } => {
                let kind = *kind % 3;
                v.label(match kind { 0 => "values:float", 1 => "values:first-order", _ => "values:second-order" });
                let rule = rule_of(*rule);
                v.label(intern(format!("rule:{}", rule.name())));
                let mut sorted: Vec<(i64, f64)> = nodes.iter().map(|(t, y)| (*t, y.0)).collect();
                sorted.sort_by_key(|x| x.0);
                let times: Vec<i64> = sorted.iter().map(|x| x.0).collect();
                let values: Vec<f64> = sorted.iter().map(|x| x.1).collect();
                let n = times.len();
                v.label_if(n == 2, "nodes:2");
                v.label_if(times.windows(2).any(|w| (w[1] - w[0]) % 86400 != 0), "spacing:sub-day");
                let supplied_sorted = nodes.iter().map(|x| x.0).collect::<Vec<_>>() == times;
                v.label(if supplied_sorted { "supply:sorted" } else { "supply:shuffled" });
                v.label_if(values.windows(2).any(|w| w[0] == w[1]), "values:flat-section");

                // dual node values are tagged per node date so that both supply orders describe the same curve
                let tag = |t: i64| vec![format!("n{}", times.iter().position(|u| *u == t).map_or_else(|| format!("x{}", t), |p| p.to_string()))];
                let mk_nodes = |ns: &[(i64, f64)]| match kind {
                    0 => Nodes::F64(IndexMap::from_iter(ns.iter().map(|(t, y)| (secs_to_ndt(*t), *y)))),
                    1 => Nodes::Dual(IndexMap::from_iter(ns.iter().map(|(t, y)| (secs_to_ndt(*t), Dual::new(*y, tag(*t)))))),
                    _ => Nodes::Dual2(IndexMap::from_iter(ns.iter().map(|(t, y)| (secs_to_ndt(*t), Dual2::new(*y, tag(*t)))))),
                };
                let supplied: Vec<(i64, f64)> = nodes.iter().map(|(t, y)| (*t, y.0)).collect();
                let built = catch(|| {
                    let a = AnyCurve::new(rule, mk_nodes(&supplied), "crv", None);
                    let b = AnyCurve::new(rule, mk_nodes(&sorted), "crv", None);
                    let h = VCurve::new(
                        IndexMap::from_iter(supplied.iter().map(|(t, y)| (secs_to_ndt(*t), Number::F64(*y)))),
                        vinterp_of(rule),
                        ADOrder::Zero,
                        "crv",
                        Convention::Act360,
                        Modifier::ModF,
                        CalType::Cal(plain_cal()),
                        None,
                    )
                    .expect("hook curve");
                    (a, b, h)
                });
                let (curve, curve_sorted, hook) = match built {
                    Ok(x) => x,
                    Err(p) => {
                        v.fail(format!("curve construction | panic | {}", p.site()), p.message);
                        return v;
                    }
                };
                // a sibling curve: same node count, same first and last date, interior dates moved
                // (same horizon and pillar count, other tenors). It is looked up alternately with the
                // curve itself below - a look-up must not depend on which curve was queried before.
                let sibling: Option<(AnyCurve, Vec<i64>, Vec<f64>)> = if n >= 3 {
                    let mut st = times.clone();
                    let mut moved = false;
                    for i in 1..n - 1 {
                        // move each interior date to the middle of the gap on the side that has room
                        let (lo, hi) = (st[i - 1], times[i + 1]);
                        let cand = if (i % 2 == 0 || times[i] - lo < 2) && hi - times[i] >= 2 { times[i] + (hi - times[i]) / 2 } else if times[i] - lo >= 2 { lo + (times[i] - lo) / 2 } else { times[i] };
                        if cand != times[i] && cand > st[i - 1] && cand < times[i + 1] {
                            st[i] = cand;
                            moved = true;
                        }
                    }
                    if moved {
                        let pairs: Vec<(i64, f64)> = st.iter().cloned().zip(values.iter().cloned()).collect();
                        catch(|| AnyCurve::new(rule, mk_nodes(&pairs), "sib", None)).ok().map(|c| (c, st, values.clone()))
                    } else {
                        None
                    }
                } else {
                    None
                };
                v.label_if(sibling.is_some(), "sibling-curve:interleaved-look-ups");
                if !curve.equals(&curve_sorted) {
                    v.fail("curves from shuffled and sorted node supply compare unequal", format!("{:?}", nodes));
                    return v;
                }
                for x in queries {
                    let date = secs_to_ndt(*x);
                    let m = evaluate(rule, &times, &values, *x);
                    let pos = if *x < times[0] { "query:before" } else if *x > times[n - 1] { "query:after" } else if times.contains(x) { "query:at-node" } else { "query:between" };
                    v.label(pos);
                    let interior_node = times[1..n - 1].contains(x);
                    v.nt(n >= 3 && ((*x > times[1] && *x < times[n - 2] && !times.contains(x)) || interior_node));
                    // the sibling first, then the curve itself (the other way round for odd dates)
                    if let Some((sib, st, sv)) = &sibling {
                        let ms = evaluate(rule, st, sv, *x);
                        let order_first = *x % 2 == 0;
                        let r = catch(|| {
                            if order_first {
                                let a = (sib.node_index(*x), f64::from(&sib.value(&date)));
                                let b = curve.node_index(*x);
                                (a, b)
                            } else {
                                let b = curve.node_index(*x);
                                let a = (sib.node_index(*x), f64::from(&sib.value(&date)));
                                (a, b)
                            }
                        });
                        match r {
                            Ok(((si, sval), ci)) => {
                                let flat = matches!(rule, Rule::FlatForward | Rule::FlatBackward);
                                let ok = si == ms.index && ci == m.index && if flat { sval.to_bits() == ms.value.to_bits() } else { close(sval, ms.value, 1e-12 * ms.cond, 0.0) };
                                if !ok {
                                    v.fail(
                                        "a look-up depends on which curve was looked up before",
                                        format!("{}: curve nodes {:?}, sibling nodes {:?}, query {}: sibling interval {} (expected {}), value {:e} (closed form {:e}); curve interval {} (expected {})", rule.name(), times, st, x, si, ms.index, sval, ms.value, ci, m.index),
                                    );
                                    return v;
                                }
                            }
                            Err(p) => {
                                v.fail(format!("look-up | panic | {}", p.site()), p.message);
                                return v;
                            }
                        }
                    }
                    let got = match catch(|| (curve.value(&date), curve_sorted.value(&date), hook.get(&date), curve.node_index(*x), hook.node_index(*x), index_left_i64(&times, *x))) {
                        Ok(g) => g,
                        Err(p) => {
                            v.fail(format!("look-up | panic | {}", p.site()), format!("{} at {}: {}", rule.name(), x, p.message));
                            return v;
                        }
                    };
                    let (g, gs, gh) = (f64::from(&got.0), f64::from(&got.1), f64::from(&got.2));
                    if got.3 != m.index || got.4 != m.index || got.5 != m.index {
                        v.fail(
                            "interval used is not the one whose right end is the first node on or after the date (clamped)",
                            format!("{}: nodes {:?}, query {}: node_index {} / {} / index_left {}, expected {}", rule.name(), times, x, got.3, got.4, got.5, m.index),
                        );
                        return v;
                    }
                    // the hook curve always holds floats; dual node values may round differently
                    let hook_agrees = if kind == 0 { g.to_bits() == gh.to_bits() } else { close(g, gh, 1e-12 * m.cond, 0.0) };
                    if g.to_bits() != gs.to_bits() || !hook_agrees {
                        v.fail("value depends on the supply order of the nodes or on the constructor", format!("{}: shuffled {:e}, sorted {:e}, python-facing constructor {:e}", rule.name(), g, gs, gh));
                        return v;
                    }
                    let flat = matches!(rule, Rule::FlatForward | Rule::FlatBackward);
                    let ok = if flat { g.to_bits() == m.value.to_bits() } else { close(g, m.value, 1e-12 * m.cond, 0.0) };
                    if !ok {
                        v.fail(
                            format!("value differs from the closed form | {} | {}", rule.name(), pos),
                            format!("nodes {:?} values {:?}, query {} (interval {}): got {:e}, closed form {:e}", times, values, x, m.index, g, m.value),
                        );
                        return v;
                    }
                    // node dates return the node value (first node of the zero-rate rule: 1)
                    if let Some(k) = times.iter().position(|t| t == x) {
                        let exp = if rule == Rule::LinearZeroRate && k == 0 { 1.0 } else { values[k] };
                        if !close(g, exp, 1e-12 * m.cond, 0.0) {
                            v.fail(format!("value at a node date is not the node's value | {}", rule.name()), format!("node {} of {:?}: got {:e}, node value {:e}", k, times, g, exp));
                            return v;
                        }
                    }
                    // betweenness inside the node range for the first two rules
                    if matches!(rule, Rule::Linear | Rule::LogLinear) && *x >= times[0] && *x <= times[n - 1] {
                        let (lo, hi) = (values[m.index].min(values[m.index + 1]), values[m.index].max(values[m.index + 1]));
                        if g < lo * (1.0 - 1e-12 * m.cond) || g > hi * (1.0 + 1e-12 * m.cond) {
                            v.fail(format!("value is not between the two adjacent nodes | {}", rule.name()), format!("{:e} not in [{:e}, {:e}]", g, lo, hi));
                            return v;
                        }
                    }
                }
            }
        }
        v
    }

    fn plan(&self, tier: Tier) -> Vec<Stage<Case>> {
        vec![Stage::random("random", tier.pick(1_000_000, 40_000_000), case_strategy)]
    }

    fn rule(&self) -> String {
        "random (rule, node set, query dates): 2-12 nodes with distinct timestamps, spacings from 1 second to ~6 years (mostly whole days), positive values (DF-like and general; a fifth of the curves repeat a value exactly on neighbouring nodes, some are all ones), supplied shuffled or sorted; 1-7 queries per curve drawn before the first node, after the last, exactly on nodes and 1 second either side, at interval midpoints and uniformly inside intervals. Every curve is built three ways (generic constructor with shuffled nodes, with sorted nodes - node values given as floats, first-order or second-order numbers tagged per node date - and the Python-facing constructor through the hook); the two generic curves must agree bit-for-bit and compare equal, the hook curve bit-for-bit for float values and to 1e-12 otherwise. A sibling curve (same node count, first and last date; interior dates moved) is looked up alternately with the curve itself. Oracle: linear-scan interval choice and the closed form of each rule (1e-12; flat rules exact), node dates return node values, betweenness for linear/log-linear. Plus index_left on random strictly increasing float lists with probes at, between, just above and outside the entries. Non-trivial: >= 3 nodes and a query strictly inside an interior interval or exactly on an interior node (curves); lists of >= 3 entries (index_left).".into()
    }

    fn floors(&self, tier: Tier) -> Vec<Floor> {
        let n = tier.pick(1_000_000u64, 40_000_000);
        vec![
            Floor { label: "query:before", min: n / 10 },
            Floor { label: "query:at-node", min: n / 10 },
            Floor { label: "query:between", min: n / 10 },
            Floor { label: "query:after", min: n / 10 },
            Floor { label: "nodes:2", min: n / 50 },
            Floor { label: "spacing:sub-day", min: n / 20 },
            Floor { label: "supply:shuffled", min: n / 4 },
            Floor { label: "kind:index_left", min: n / 10 },
            Floor { label: "rule:linear_zero_rate", min: n / 10 },
            Floor { label: "values:first-order", min: n / 10 },
            Floor { label: "values:flat-section", min: n / 20 },
            Floor { label: "sibling-curve:interleaved-look-ups", min: n / 5 },
            Floor { label: "values:second-order", min: n / 10 },
        ]
    }
}
