//! C07 - Built-in holiday calendars agree with their published rules.

use crate::engine::*;
use crate::gen::cal::BUILTIN;
use crate::model::civil::*;
use crate::model::rules::*;
use crate::util::*;
use rateslib::calendars::{get_calendar_by_name, Cal, DateRoll, NamedCal};
use serde::{Deserialize, Serialize};
use std::cell::RefCell;
use std::collections::{BTreeSet, HashMap};
use std::rc::Rc;

#[derive(Clone, Debug, Serialize, Deserialize)]
pub enum Case {
    /// one (calendar, date) pair
    Day { cal: String, day: i64 },
    /// a name listed in the documentation must resolve (plain and through NamedCal)
    DocName { name: String },
    /// a fixing history shipped with the library against its calendar
    Fixings { file: String, cal: String },
}

pub struct C07;

pub fn repo_root() -> String {
    std::env::var("RLVERIF_REPO").unwrap_or_else(|_| "/repo".to_string())
}

pub const FIXINGS: [(&str, &str); 9] = [
    ("usd_rfr", "nyc"),
    ("gbp_rfr", "ldn"),
    ("cad_rfr", "tro"),
    ("eur_rfr", "tgt"),
    ("jpy_rfr", "tyo"),
    ("sek_rfr", "stk"),
    ("nok_rfr", "osl"),
    ("aud_rfr", "syd"),
    ("inr_rfr", "mum"),
];

/// Calendar names listed in the `get_calendar` docstring: lines of the form `- *"xxx"*: ...`.
pub fn documented_names() -> Result<Vec<String>, String> {
    let p = format!("{}/python/rateslib/calendars/rs.py", repo_root());
    let txt = std::fs::read_to_string(&p).map_err(|e| format!("{}: {}", p, e))?;
    let mut out = Vec::new();
    for line in txt.lines() {
        let l = line.trim_start();
        if let Some(rest) = l.strip_prefix("- *\"") {
            if let Some(end) = rest.find("\"*") {
                out.push(rest[..end].to_string());
            }
        }
    }
    if out.len() < 10 {
        return Err(format!("only {} documented names found in {}", out.len(), p));
    }
    Ok(out)
}

/// Publication dates (day numbers) of a fixings csv: first column dd-mm-YYYY, header line, BOM.
pub fn fixing_days(file: &str) -> Result<BTreeSet<i64>, String> {
    let p = format!("{}/python/rateslib/data/{}.csv", repo_root(), file);
    let txt = std::fs::read_to_string(&p).map_err(|e| format!("{}: {}", p, e))?;
    let mut out = BTreeSet::new();
    for (i, line) in txt.trim_start_matches('\u{feff}').lines().enumerate() {
        if i == 0 || line.trim().is_empty() {
            continue;
        }
        let first = line.split(',').next().unwrap_or("");
        let parts: Vec<&str> = first.trim().split('-').collect();
        if parts.len() != 3 {
            return Err(format!("{}: line {}: cannot parse date '{}'", p, i + 1, first));
        }
        let (d, m, y): (u32, u32, i64) = (
            parts[0].parse().map_err(|_| format!("{}: line {}", p, i + 1))?,
            parts[1].parse().map_err(|_| format!("{}: line {}", p, i + 1))?,
            parts[2].parse().map_err(|_| format!("{}: line {}", p, i + 1))?,
        );
        if !(1..=12).contains(&m) || d < 1 || d > month_len(y, m) {
            return Err(format!("{}: line {}: invalid date '{}'", p, i + 1, first));
        }
        out.insert(days_from_civil(y, m, d));
    }
    if out.len() < 100 {
        return Err(format!("{}: only {} dates", p, out.len()));
    }
    Ok(out)
}

struct Ctx {
    cals: HashMap<String, Rc<Cal>>,
    full: HashMap<String, Rc<BTreeSet<i64>>>,
    partial: HashMap<String, Rc<BTreeSet<i64>>>,
    good_fridays: Rc<BTreeSet<i64>>,
}

thread_local! {
    static CTX: RefCell<Option<Ctx>> = const { RefCell::new(None) };
}

fn with_ctx<T>(f: impl FnOnce(&mut Ctx) -> T) -> T {
    CTX.with(|c| {
        let mut c = c.borrow_mut();
        let ctx = c.get_or_insert_with(|| Ctx {
            cals: HashMap::new(),
            full: HashMap::new(),
            partial: HashMap::new(),
            good_fridays: Rc::new((1970..=2200).map(|y| easter_days(y) - 2).collect()),
        });
        f(ctx)
    })
}

fn lib_cal(name: &str) -> Result<Rc<Cal>, String> {
    with_ctx(|ctx| {
        if let Some(c) = ctx.cals.get(name) {
            return Ok(c.clone());
        }
        match catch(|| get_calendar_by_name(name)) {
            Ok(Ok(c)) => {
                let c = Rc::new(c);
                ctx.cals.insert(name.to_string(), c.clone());
                Ok(c)
            }
            Ok(Err(_)) => Err(format!("get_calendar_by_name(\"{}\") returned an error", name)),
            Err(p) => Err(format!("get_calendar_by_name(\"{}\") panicked: {}", name, p.message)),
        }
    })
}

fn full_set(name: &str) -> Option<Rc<BTreeSet<i64>>> {
    with_ctx(|ctx| {
        if let Some(s) = ctx.full.get(name) {
            return Some(s.clone());
        }
        let s = Rc::new(rule_days(&full_rules(name)?));
        ctx.full.insert(name.to_string(), s.clone());
        Some(s)
    })
}

fn partial_set(name: &str) -> Option<Rc<BTreeSet<i64>>> {
    with_ctx(|ctx| {
        if let Some(s) = ctx.partial.get(name) {
            return Some(s.clone());
        }
        let s = Rc::new(rule_days(&partial_rules(name)?));
        ctx.partial.insert(name.to_string(), s.clone());
        Some(s)
    })
}

impl Property for C07 {
    type Case = Case;
    fn id(&self) -> &'static str {
        "C07"
    }

    fn check(&self, c: &Case) -> Verdict {
        let mut v = Verdict::new();
        match c {
            Case::Day { cal, day } => {
                let lib = match lib_cal(cal) {
                    Ok(l) => l,
                    Err(e) => {
                        v.fail(format!("name does not resolve | {}", cal), e);
                        return v;
                    }
                };
                let date = day_to_ndt(*day);
                let wd = weekday(*day);
                let is_hol = lib.is_holiday(&date);
                let is_wd = lib.is_weekday(&date);
                let expect_wd = if cal == "all" { true } else { wd < 5 };
                if is_wd != expect_wd {
                    v.fail(
                        format!("week mask | {}", cal),
                        format!("{}: is_weekday({}) = {}, the published working week says {}", cal, fmt_day(*day), is_wd, expect_wd),
                    );
                    return v;
                }
                if cal == "all" || cal == "bus" {
                    v.label("kind:no-holidays");
                    v.nt(wd >= 5);
                    if is_hol {
                        v.fail(format!("holiday in '{}'", cal), format!("{} reports {} as a holiday", cal, fmt_day(*day)));
                    }
                    return v;
                }
                if wd >= 5 {
                    // the property speaks of weekdays only
                    return v;
                }
                if let Some(rules) = full_set(cal) {
                    v.label("kind:full-rules");
                    let expected = rules.contains(day);
                    v.nt(expected || is_hol);
                    if is_hol != expected {
                        v.fail(
                            format!("{} | {}", cal, if expected { "published holiday missing" } else { "holiday not in the published rules" }),
                            format!("{}: is_holiday({}) = {} but the published rules say {}", cal, fmt_day(*day), is_hol, expected),
                        );
                        return v;
                    }
                    if cal == "fed" {
                        // 'fed' is 'nyc' without Good Friday - checked against the library's own nyc
                        let nyc = match lib_cal("nyc") {
                            Ok(l) => l,
                            Err(e) => {
                                v.fail("name does not resolve | nyc", e);
                                return v;
                            }
                        };
                        let gf = with_ctx(|ctx| ctx.good_fridays.contains(day));
                        let want = nyc.is_holiday(&date) && !gf;
                        if is_hol != want {
                            v.fail(
                                "fed | not nyc without Good Friday",
                                format!("fed.is_holiday({}) = {}, nyc = {}, Good Friday = {}", fmt_day(*day), is_hol, nyc.is_holiday(&date), gf),
                            );
                        }
                    }
                } else if let Some(rules) = partial_set(cal) {
                    v.label("kind:partial-rules");
                    let must = rules.contains(day);
                    v.nt(must);
                    if must && !is_hol {
                        v.fail(
                            format!("{} | documented holiday missing", cal),
                            format!("{}: {} is a weekday occurrence of a documented fixed-date or Easter-linked holiday but is_holiday is false", cal, fmt_day(*day)),
                        );
                    }
                } else {
                    v.fail("oracle | no rules for calendar", cal.clone());
                }
            }
            Case::DocName { name } => {
                v.label("kind:doc-name");
                v.nt(true);
                if let Err(e) = lib_cal(name) {
                    v.fail(format!("name does not resolve | {}", name), e);
                    return v;
                }
                match catch(|| NamedCal::try_new(name)) {
                    Ok(Ok(_)) => {}
                    Ok(Err(_)) => v.fail(format!("name does not resolve | NamedCal | {}", name), "NamedCal::try_new returned an error"),
                    Err(p) => v.fail(format!("name does not resolve | NamedCal | panic | {}", p.site()), p.message),
                }
                if !BUILTIN.contains(&name.as_str()) {
                    v.fail("oracle | documented name unknown to the harness", format!("'{}' is documented but the harness has no rules for it", name));
                }
            }
            Case::Fixings { file, cal } => {
                v.label("kind:fixings");
                v.nt(true);
                let days = match fixing_days(file) {
                    Ok(d) => d,
                    Err(e) => {
                        v.fail("infrastructure | cannot read fixings", e);
                        return v;
                    }
                };
                let lib = match lib_cal(cal) {
                    Ok(l) => l,
                    Err(e) => {
                        v.fail(format!("name does not resolve | {}", cal), e);
                        return v;
                    }
                };
                let (first, last) = (*days.iter().next().unwrap(), *days.iter().next_back().unwrap());
                let bus: BTreeSet<i64> = (first..=last).filter(|z| lib.is_bus_day(&day_to_ndt(*z))).collect();
                let missing: Vec<i64> = days.difference(&bus).cloned().collect();
                let extra: Vec<i64> = bus.difference(&days).cloned().collect();
                if !missing.is_empty() || !extra.is_empty() {
                    let show = |v: &[i64]| v.iter().take(5).map(|z| fmt_day(*z)).collect::<Vec<_>>().join(", ");
                    v.fail(
                        format!("fixings | {} vs {}", file, cal),
                        format!(
                            "{} publication dates are not business days of {} ({}); {} business days have no publication ({})",
                            missing.len(), cal, show(&missing), extra.len(), show(&extra)
                        ),
                    );
                }
            }
        }
        v
    }

    fn plan(&self, _tier: Tier) -> Vec<Stage<Case>> {
        let docs = documented_names();
        vec![
            Stage::enumerate("documented-names", true, true, move |k, _n| {
                if k != 0 {
                    return Box::new(std::iter::empty());
                }
                match &docs {
                    Ok(names) => Box::new(names.clone().into_iter().map(|name| Case::DocName { name })),
                    Err(e) => {
                        println!("INCONCLUSIVE: cannot read the documented calendar names: {}", e);
                        std::process::exit(2);
                    }
                }
            }),
            Stage::enumerate("fixing-histories", true, true, |k, n| {
                Box::new(
                    FIXINGS
                        .iter()
                        .enumerate()
                        .filter(move |(i, _)| i % n == k)
                        .map(|(_, (f, c))| Case::Fixings { file: f.to_string(), cal: c.to_string() }),
                )
            }),
            Stage::enumerate("all-calendars-all-dates", true, true, |k, n| {
                let r = chunk((day_max() - DAY_MIN + 1) as usize, k, n);
                Box::new(BUILTIN.iter().flat_map(move |cal| {
                    let r = r.clone();
                    r.map(move |i| Case::Day { cal: cal.to_string(), day: DAY_MIN + i as i64 })
                }))
            }),
        ]
    }

    fn rule(&self) -> String {
        "exhaustive: every built-in calendar name x every date 1970-01-01..2200-12-31, every name in the get_calendar docstring (parsed at run time), and each of the nine shipped fixing histories (read at run time). Oracle: the published holiday rules re-implemented on an independent Gregorian/Easter model (exact equivalence on weekdays for tgt, nyc, fed, ldn, stk, osl, zur; one-directional for the documented fixed-date and Easter-linked holidays of tro, tyo, syd, wlg, mum; no holidays for all/bus; fed = nyc minus Good Friday). Non-trivial: a weekday (calendar, date) pair where the rules or the data say 'holiday', a weekend day of all/bus, a documented name, a fixing history; all distinct by construction.".into()
    }

    fn floors(&self, _tier: Tier) -> Vec<Floor> {
        vec![
            Floor { label: "kind:full-rules", min: 7 * 60_000 },
            Floor { label: "kind:partial-rules", min: 5 * 60_000 },
            Floor { label: "kind:doc-name", min: 14 },
            Floor { label: "kind:fixings", min: 9 },
        ]
    }

    fn assumptions(&self) -> Vec<String> {
        vec![
            "the published rules are those of the *_script.py generators next to the tables, read with pandas' Holiday semantics (reference date per year, weekday offset, observance, start/end filter on the observed date)".into(),
            "only weekdays are compared (a listed holiday falling on a weekend is unobservable)".into(),
        ]
    }

    fn extra_coverage(&self) -> serde_json::Value {
        // oracle self-check: two independent Easter algorithms agree over the whole range
        let agree = (1970..=2200).all(|y| easter_days(y) == easter_gauss_days(y));
        serde_json::json!({"easter_self_check_two_algorithms_agree": agree})
    }
}
