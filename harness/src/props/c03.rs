//! C03 - Derivatives are tracked by variable name, whatever the internal layout.

use crate::engine::*;
use crate::props::adcommon::{index_of, name_of, NAMES};
use crate::util::*;
use proptest::prelude::*;
use rateslib::dual::{Dual, Dual2, Gradient1, Gradient2, Vars};
use serde::{Deserialize, Serialize};
use std::collections::BTreeMap;

#[derive(Clone, Copy, Debug, Serialize, Deserialize, PartialEq, Eq)]
pub enum BinOp {
    Add,
    Sub,
    Mul,
    Div,
    Rem,
    Eq,
}
pub const OPS: [BinOp; 6] = [BinOp::Add, BinOp::Sub, BinOp::Mul, BinOp::Div, BinOp::Rem, BinOp::Eq];

/// An operand: an ordered duplicate-free list of names (the layout) and, per layout position,
/// the first-derivative coefficient; second-derivative storage as a symmetric matrix over the
/// layout (row-major upper triangle incl. diagonal). Zero coefficients model "extra variables
/// carried with zero derivative".
#[derive(Clone, Debug, Serialize, Deserialize)]
pub struct Operand {
    pub real: Fl,
    pub layout: Vec<u8>,
    pub d1: Vec<Fl>,
    pub d2: Vec<Fl>,
}

#[derive(Clone, Debug, Serialize, Deserialize)]
pub struct Case {
    pub second_order: bool,
    pub a: Operand,
    pub b: Operand,
    /// if the two layouts are identical, build b on a's variable storage (shared Arc)
    pub share: bool,
    pub op: BinOp,
    /// memory representation: bit 0 / bit 1 = operand a / b holds its derivative arrays in reversed
    /// memory order (negative strides; same logical content), as `clone_from` accepts them
    #[serde(default)]
    pub rev: u8,
}

pub struct C03;

/// by-name content: value, name -> d1, (name, name) -> stored second-order coefficient
#[derive(Clone, Debug, PartialEq)]
pub struct ByName {
    pub real: f64,
    pub d1: BTreeMap<u8, f64>,
    pub d2: BTreeMap<(u8, u8), f64>,
}

impl Operand {
    pub fn names(&self) -> Vec<String> {
        self.layout.iter().map(|i| name_of(*i)).collect()
    }
    pub fn d1v(&self) -> Vec<f64> {
        let n = self.layout.len();
        (0..n).map(|i| self.d1.get(i).map_or(0.0, |f| f.0)).collect()
    }
    /// full symmetric matrix, row-major
    pub fn d2m(&self) -> Vec<f64> {
        let n = self.layout.len();
        let mut m = vec![0.0; n * n];
        let mut k = 0;
        for i in 0..n {
            for j in i..n {
                let v = self.d2.get(k).map_or(0.0, |f| f.0);
                m[i * n + j] = v;
                m[j * n + i] = v;
                k += 1;
            }
        }
        m
    }
    pub fn by_name(&self, second: bool) -> ByName {
        let n = self.layout.len();
        let d1v = self.d1v();
        let d2m = self.d2m();
        let mut d1 = BTreeMap::new();
        let mut d2 = BTreeMap::new();
        for i in 0..n {
            d1.insert(self.layout[i], d1v[i]);
            if second {
                for j in 0..n {
                    d2.insert((self.layout[i], self.layout[j]), d2m[i * n + j]);
                }
            }
        }
        ByName { real: self.real.0, d1, d2 }
    }
    /// the same number re-expressed on an arbitrary list of names containing its own
    pub fn on_list(&self, list: &[u8], second: bool) -> (Vec<f64>, Vec<f64>) {
        let bn = self.by_name(second);
        let m = list.len();
        let d1 = list.iter().map(|n| *bn.d1.get(n).unwrap_or(&0.0)).collect();
        let mut d2 = vec![0.0; m * m];
        for (i, a) in list.iter().enumerate() {
            for (j, b) in list.iter().enumerate() {
                d2[i * m + j] = *bn.d2.get(&(*a, *b)).unwrap_or(&0.0);
            }
        }
        (d1, d2)
    }
}

fn get1(m: &BTreeMap<u8, f64>, k: u8) -> f64 {
    *m.get(&k).unwrap_or(&0.0)
}
fn get2(m: &BTreeMap<(u8, u8), f64>, k: (u8, u8)) -> f64 {
    *m.get(&k).unwrap_or(&0.0)
}

/// Independent by-name formulas. Returns the expected content and a per-entry magnitude
/// (sum of absolute terms) for the tolerance. Second-order coefficients follow the storage
/// convention of the types (half the second derivative).
fn model(op: BinOp, a: &ByName, b: &ByName, second: bool) -> (ByName, ByName) {
    let names: Vec<u8> = {
        let mut v: Vec<u8> = a.d1.keys().chain(b.d1.keys()).cloned().collect();
        v.sort();
        v.dedup();
        v
    };
    let (x, y) = (a.real, b.real);
    // linear combination c1*a + c2*b, or product rule with helper u = f(b)
    let mut out = ByName { real: 0.0, d1: BTreeMap::new(), d2: BTreeMap::new() };
    let mut mag = out.clone();
    match op {
        BinOp::Add | BinOp::Sub | BinOp::Rem => {
            let (c1, c2) = match op {
                BinOp::Add => (1.0, 1.0),
                BinOp::Sub => (1.0, -1.0),
                _ => (1.0, -(x / y).trunc()),
            };
            out.real = c1 * x + c2 * y;
            mag.real = x.abs() + (c2 * y).abs();
            for n in &names {
                out.d1.insert(*n, c1 * get1(&a.d1, *n) + c2 * get1(&b.d1, *n));
                mag.d1.insert(*n, get1(&a.d1, *n).abs() + (c2 * get1(&b.d1, *n)).abs());
                if second {
                    for m in &names {
                        let k = (*n, *m);
                        out.d2.insert(k, c1 * get2(&a.d2, k) + c2 * get2(&b.d2, k));
                        mag.d2.insert(k, get2(&a.d2, k).abs() + (c2 * get2(&b.d2, k)).abs());
                    }
                }
            }
        }
        BinOp::Mul | BinOp::Div => {
            // u = b for Mul, u = 1/b for Div (stored second-order = half second derivative)
            let (u0, u1c, u2c_lin, u2c_quad) = match op {
                BinOp::Mul => (y, 1.0, 1.0, 0.0),
                // u = 1/y: du = -1/y^2 db ; half d2u = -1/y^2 * (half d2b) + (1/y^3) db db^T
                _ => (1.0 / y, -1.0 / (y * y), -1.0 / (y * y), 1.0 / (y * y * y)),
            };
            let u1 = |n: u8| u1c * get1(&b.d1, n);
            let u2 = |k: (u8, u8)| u2c_lin * get2(&b.d2, k) + u2c_quad * get1(&b.d1, k.0) * get1(&b.d1, k.1);
            out.real = if op == BinOp::Mul { x * y } else { x / y };
            mag.real = out.real.abs();
            for n in &names {
                let t1 = get1(&a.d1, *n) * u0;
                let t2 = x * u1(*n);
                out.d1.insert(*n, t1 + t2);
                mag.d1.insert(*n, t1.abs() + t2.abs());
                if second {
                    for m in &names {
                        let k = (*n, *m);
                        let t = [
                            get2(&a.d2, k) * u0,
                            x * u2(k),
                            0.5 * get1(&a.d1, *n) * u1(*m),
                            0.5 * get1(&a.d1, *m) * u1(*n),
                        ];
                        out.d2.insert(k, t.iter().sum());
                        mag.d2.insert(k, t.iter().map(|v| v.abs()).sum::<f64>() + (x * u2c_quad * get1(&b.d1, k.0) * get1(&b.d1, k.1)).abs());
                    }
                }
            }
        }
        BinOp::Eq => unreachable!(),
    }
    (out, mag)
}

/// model of `==`: values equal and every coefficient equal with missing == zero
fn model_eq(a: &ByName, b: &ByName) -> bool {
    if a.real != b.real {
        return false;
    }
    let mut names: Vec<u8> = a.d1.keys().chain(b.d1.keys()).cloned().collect();
    names.sort();
    names.dedup();
    for n in &names {
        if get1(&a.d1, *n) != get1(&b.d1, *n) {
            return false;
        }
        for m in &names {
            if get2(&a.d2, (*n, *m)) != get2(&b.d2, (*n, *m)) {
                return false;
            }
        }
    }
    true
}

macro_rules! impl_run {
    ($fname:ident, $T:ty, $second:expr) => {
        /// returns (result by name as read from the result's own arrays, names in result order,
        /// shape problems) for an arithmetic op, or the boolean for Eq
        fn $fname(c: &Case, a_list: Option<&[u8]>) -> Result<(Option<ByName>, Option<bool>, Vec<String>, Option<String>), PanicNote> {
            catch(|| {
                let mk = |o: &Operand, list: Option<&[u8]>| -> $T {
                    match list {
                        None => make::<$T>(o.real.0, o.names(), o.d1v(), o.d2m()),
                        Some(l) => {
                            let (d1, d2) = o.on_list(l, $second);
                            make::<$T>(o.real.0, l.iter().map(|i| name_of(*i)).collect(), d1, d2)
                        }
                    }
                };
                let a = mk(&c.a, a_list);
                let b: $T = if a_list.is_some() || (c.share && c.a.layout == c.b.layout) {
                    // same list: build on a's storage so that the Arc is shared
                    let l: Vec<u8> = a_list.map(|l| l.to_vec()).unwrap_or_else(|| c.a.layout.clone());
                    let (d1, d2) = c.b.on_list(&l, $second);
                    make_from::<$T>(&a, c.b.real.0, l.iter().map(|i| name_of(*i)).collect(), d1, d2)
                } else {
                    mk(&c.b, None)
                };
                let a = if c.rev & 1 == 1 { a.reversed_memory() } else { a };
                let b = if c.rev & 2 == 2 { b.reversed_memory() } else { b };
                if c.op == BinOp::Eq {
                    let e1 = a == b;
                    let e2 = b == a;
                    let note = if e1 != e2 { Some(format!("a == b is {} but b == a is {}", e1, e2)) } else { None };
                    return (None, Some(e1), vec![], note);
                }
                let r: $T = match c.op {
                    BinOp::Add => &a + &b,
                    BinOp::Sub => &a - &b,
                    BinOp::Mul => &a * &b,
                    BinOp::Div => &a / &b,
                    BinOp::Rem => &a % &b,
                    BinOp::Eq => unreachable!(),
                };
                let names: Vec<String> = r.vars().iter().cloned().collect();
                let (bn, shape) = read_back(&r, &names);
                (Some(bn), None, names, shape)
            })
        }
    };
}

trait Make: Sized {
    fn mk(real: f64, names: Vec<String>, d1: Vec<f64>, d2: Vec<f64>) -> Self;
    fn mk_from(other: &Self, real: f64, names: Vec<String>, d1: Vec<f64>, d2: Vec<f64>) -> Self;
    fn read(&self, names: &[String]) -> (ByName, Option<String>);
    /// the same number, its arrays stored back to front in memory (negative strides)
    fn reversed_memory(&self) -> Self;
}
fn idx(name: &str) -> u8 {
    index_of(name)
}
impl Make for Dual {
    fn reversed_memory(&self) -> Self {
        let d1: Vec<f64> = self.dual().iter().rev().cloned().collect();
        Dual::clone_from(self, self.real(), ndarray::Array1::from_vec(d1).slice_move(ndarray::s![..;-1]))
    }
    fn mk(real: f64, names: Vec<String>, d1: Vec<f64>, _d2: Vec<f64>) -> Self {
        if names.is_empty() {
            Dual::new(real, vec![])
        } else {
            Dual::try_new(real, names, d1).expect("operand")
        }
    }
    fn mk_from(other: &Self, real: f64, names: Vec<String>, d1: Vec<f64>, _d2: Vec<f64>) -> Self {
        if names.is_empty() {
            Dual::new_from(other, real, vec![])
        } else {
            Dual::try_new_from(other, real, names, d1).expect("operand")
        }
    }
    fn read(&self, names: &[String]) -> (ByName, Option<String>) {
        let mut bn = ByName { real: self.real(), d1: BTreeMap::new(), d2: BTreeMap::new() };
        let shape = if self.dual().len() != names.len() { Some(format!("{} names but {} first-order coefficients", names.len(), self.dual().len())) } else { None };
        for (i, n) in names.iter().enumerate() {
            if i < self.dual().len() {
                bn.d1.insert(idx(n), self.dual()[i]);
            }
        }
        (bn, shape)
    }
}
impl Make for Dual2 {
    fn reversed_memory(&self) -> Self {
        let d1: Vec<f64> = self.dual().iter().rev().cloned().collect();
        let n = d1.len();
        let d2: Vec<f64> = self.dual2().iter().cloned().collect::<Vec<_>>().into_iter().rev().collect();
        let a1 = ndarray::Array1::from_vec(d1).slice_move(ndarray::s![..;-1]);
        let a2 = ndarray::Array2::from_shape_vec((n, n), d2).expect("shape").slice_move(ndarray::s![..;-1, ..;-1]);
        Dual2::clone_from(self, self.real(), a1, a2)
    }
    fn mk(real: f64, names: Vec<String>, d1: Vec<f64>, d2: Vec<f64>) -> Self {
        if names.is_empty() {
            Dual2::new(real, vec![])
        } else {
            Dual2::try_new(real, names, d1, d2).expect("operand")
        }
    }
    fn mk_from(other: &Self, real: f64, names: Vec<String>, d1: Vec<f64>, d2: Vec<f64>) -> Self {
        if names.is_empty() {
            Dual2::new_from(other, real, vec![])
        } else {
            Dual2::try_new_from(other, real, names, d1, d2).expect("operand")
        }
    }
    fn read(&self, names: &[String]) -> (ByName, Option<String>) {
        let mut bn = ByName { real: self.real(), d1: BTreeMap::new(), d2: BTreeMap::new() };
        let n = names.len();
        let shape = if self.dual().len() != n || self.dual2().dim() != (n, n) {
            Some(format!("{} names, {} first-order coefficients, second-order shape {:?}", n, self.dual().len(), self.dual2().dim()))
        } else {
            None
        };
        if shape.is_none() {
            for (i, a) in names.iter().enumerate() {
                bn.d1.insert(idx(a), self.dual()[i]);
                for (j, b) in names.iter().enumerate() {
                    bn.d2.insert((idx(a), idx(b)), self.dual2()[[i, j]]);
                }
            }
        }
        (bn, shape)
    }
}
fn make<T: Make>(real: f64, names: Vec<String>, d1: Vec<f64>, d2: Vec<f64>) -> T {
    T::mk(real, names, d1, d2)
}
fn make_from<T: Make>(other: &T, real: f64, names: Vec<String>, d1: Vec<f64>, d2: Vec<f64>) -> T {
    T::mk_from(other, real, names, d1, d2)
}
fn read_back<T: Make>(r: &T, names: &[String]) -> (ByName, Option<String>) {
    r.read(names)
}

impl_run!(run_dual, Dual, false);
impl_run!(run_dual2, Dual2, true);

fn relationship(a: &[u8], b: &[u8], shared: bool) -> &'static str {
    let sa: std::collections::BTreeSet<_> = a.iter().collect();
    let sb: std::collections::BTreeSet<_> = b.iter().collect();
    if a == b {
        if shared { "layouts:arc-shared" } else { "layouts:value-equal" }
    } else if a.is_empty() || b.is_empty() {
        "layouts:one-empty"
    } else if sa == sb {
        "layouts:same-set-other-order"
    } else if sb.is_subset(&sa) {
        "layouts:superset"
    } else if sa.is_subset(&sb) {
        "layouts:subset"
    } else if sa.is_disjoint(&sb) {
        "layouts:disjoint"
    } else if a.len() == b.len() {
        "layouts:equal-length-overlap"
    } else {
        "layouts:overlap"
    }
}

impl Property for C03 {
    type Case = Case;
    fn id(&self) -> &'static str {
        "C03"
    }

    fn check(&self, c: &Case) -> Verdict {
        let mut v = Verdict::new();
        let second = c.second_order;
        let shared = c.share && c.a.layout == c.b.layout;
        let rel = relationship(&c.a.layout, &c.b.layout, shared);
        v.label(rel);
        v.label(if second { "type:Dual2" } else { "type:Dual" });
        v.label(match c.op { BinOp::Add => "op:add", BinOp::Sub => "op:sub", BinOp::Mul => "op:mul", BinOp::Div => "op:div", BinOp::Rem => "op:rem", BinOp::Eq => "op:eq" });
        let (a, b) = (c.a.by_name(second), c.b.by_name(second));
        let order_differs = c.a.layout.iter().filter(|n| c.b.layout.contains(n)).cloned().collect::<Vec<_>>()
            != c.b.layout.iter().filter(|n| c.a.layout.contains(n)).cloned().collect::<Vec<_>>();
        let private = c.a.layout.iter().any(|n| !c.b.layout.contains(n)) || c.b.layout.iter().any(|n| !c.a.layout.contains(n));
        v.nt(c.a.layout != c.b.layout && (order_differs || private));
        v.label_if(c.a.d1v().iter().any(|x| *x == 0.0) || c.b.d1v().iter().any(|x| *x == 0.0), "zero-padding");
        v.label_if(c.rev != 0, "memory:reversed-arrays");
        v.label_if(c.op == BinOp::Eq && c.a.d1.iter().chain(c.b.d1.iter()).any(|x| x.0.is_infinite()), "eq:infinite-derivative");
        v.label_if(c.a.layout.len().max(c.b.layout.len()) > 16, "wide:>16-names");
        v.label_if({ let mut u = c.a.layout.clone(); u.extend(c.b.layout.iter()); u.sort(); u.dedup(); u.len() > 64 }, "wide:union>64-names");

        let run = |list: Option<&[u8]>| if second { run_dual2(c, list) } else { run_dual(c, list) };
        let direct = match run(None) {
            Ok(r) => r,
            Err(p) => {
                v.fail(format!("panic | {}", p.site()), p.message);
                return v;
            }
        };
        if let Some(note) = &direct.3 {
            v.fail(if c.op == BinOp::Eq { "equality is not symmetric" } else { "result arrays do not match the variable list" }, note.clone());
            return v;
        }
        // the no-reshuffle path: same operands on one shared, sorted, full list
        let mut full: Vec<u8> = c.a.layout.iter().chain(c.b.layout.iter()).cloned().collect();
        full.sort();
        full.dedup();
        let aligned = match run(Some(&full)) {
            Ok(r) => r,
            Err(p) => {
                v.fail(format!("panic | aligned operands | {}", p.site()), p.message);
                return v;
            }
        };
        if c.op == BinOp::Eq {
            let expected = model_eq(&a, &b);
            v.label(if expected { "eq:true" } else { "eq:false" });
            let got = direct.1.unwrap();
            if got != expected {
                v.fail(
                    if expected { "equal-by-name numbers compare unequal" } else { "different numbers compare equal" },
                    format!("a = {:?} on {:?}, b = {:?} on {:?}: == returned {}", a, c.a.layout, b, c.b.layout, got),
                );
                return v;
            }
            if aligned.1.unwrap() != expected {
                v.fail("equality differs between layouts", "operands on a shared sorted list compare differently".to_string());
            }
            return v;
        }
        let (res, names) = (direct.0.unwrap(), direct.2);
        // (c) shape: duplicate-free, exactly the union of the operand names
        let mut sorted = names.clone();
        sorted.sort();
        let dup = sorted.windows(2).any(|w| w[0] == w[1]);
        let mut expect_names: Vec<String> = full.iter().map(|i| name_of(*i)).collect();
        expect_names.sort();
        if dup || sorted != expect_names {
            v.fail(
                "result variables are not the union of the operand variables",
                format!("operands {:?} and {:?} gave result variables {:?}", c.a.names(), c.b.names(), names),
            );
            return v;
        }
        // (a) independent by-name formula
        let (exp, mag) = model(c.op, &a, &b, second);
        let tol = |m: f64| 1e-13 * m + 1e-300;
        if !((res.real - exp.real).abs() <= tol(mag.real)) {
            v.fail("value differs from the by-name formula", format!("{:e} vs {:e}", res.real, exp.real));
            return v;
        }
        for n in &full {
            let (g, e) = (get1(&res.d1, *n), get1(&exp.d1, *n));
            if !((g - e).abs() <= tol(get1(&mag.d1, *n))) {
                v.fail(
                    "first derivative by name differs from the by-name formula",
                    format!("d/d{}: result {:e}, formula {:e}; a = {:?} on {:?}; b = {:?} on {:?}", name_of(*n), g, e, a, c.a.layout, b, c.b.layout),
                );
                return v;
            }
            if second {
                for m in &full {
                    let k = (*n, *m);
                    let (g, e) = (get2(&res.d2, k), get2(&exp.d2, k));
                    if !((g - e).abs() <= tol(get2(&mag.d2, k))) {
                        v.fail(
                            "second derivative by name differs from the by-name formula",
                            format!("d2/d{}d{}: result {:e}, formula {:e}; a = {:?} on {:?}; b = {:?} on {:?}", name_of(*n), name_of(*m), g, e, a, c.a.layout, b, c.b.layout),
                        );
                        return v;
                    }
                }
            }
        }
        // (b) layout invariance against the aligned run
        let al = aligned.0.unwrap();
        let same = |x: f64, y: f64| ulps(x, y) <= 4 || (x == 0.0 && y == 0.0);
        let mut bad = !same(res.real, al.real);
        for n in &full {
            bad |= !same(get1(&res.d1, *n), get1(&al.d1, *n));
            if second {
                for m in &full {
                    bad |= !same(get2(&res.d2, (*n, *m)), get2(&al.d2, (*n, *m)));
                }
            }
        }
        if bad {
            v.fail("result depends on the variable layout", format!("direct {:?} vs on a shared sorted list {:?}", res, al));
        }
        v
    }

    fn plan(&self, tier: Tier) -> Vec<Stage<Case>> {
        let universe = tier.pick(4usize, 4);
        vec![
            // every ordered-subset pair of a small universe x sharing mode x operator x type,
            // with fixed dyadic values that depend on the name (so that mis-indexing shows)
            Stage::enumerate("all-layout-pairs", true, true, move |k, n| {
                let lay = ordered_subsets(universe as u8);
                let total = lay.len() * lay.len();
                let r = chunk(total, k, n);
                let lay2 = lay.clone();
                Box::new(r.flat_map(move |i| {
                    let la = lay2[i / lay2.len()].clone();
                    let lb = lay2[i % lay2.len()].clone();
                    let mut out = Vec::new();
                    for second in [false, true] {
                        for op in OPS {
                            for share in [false, true] {
                                if share && la != lb {
                                    continue;
                                }
                                out.push(Case { second_order: second, a: fixed_operand(&la, 0), b: fixed_operand(&lb, 1), share, op, rev: 0 });
                                if op == BinOp::Eq {
                                    // equal by name on the common support, zero elsewhere
                                    out.push(Case { second_order: second, a: equal_operand(&la, &lb), b: equal_operand(&lb, &la), share, op, rev: 0 });
                                }
                            }
                        }
                    }
                    out.into_iter()
                }))
            }),
            Stage::random("random-layouts", tier.pick(1_000_000, 20_000_000), case_strategy),
            Stage::random("wide-layouts", tier.pick(3_000, 150_000), wide_case_strategy),
        ]
    }

    fn rule(&self) -> String {
        "enumeration: every pair of ordered subsets of a 4-name universe (65 ordered subsets, 4 225 pairs) x {own storage, shared storage when the lists are identical} x {+,-,*,/,%,==} x {Dual, Dual2}, with fixed dyadic coefficients that depend on the variable name; for == additionally pairs that are equal by name on the common support and zero elsewhere. Random: layouts over 8 names (0-5 names each, any order), coefficients with zero padding, pairs constructed equal-by-name in different layouts or differing in exactly one coefficient; in a quarter of the cases one or both operands hold their arrays in reversed memory order (negative strides, through clone_from). Wide stage: 20-70 names out of 100 per operand (unions beyond 64 and 16-name boundaries), b independent or a's content with two names swapped / extended / one coefficient changed. Half of the equal-by-name equality pairs carry an infinite first derivative (as sqrt at 0 produces) under the same name on both sides. The name pool contains two pairs that differ in letter case only. Oracle: independent by-name formulas per operator, invariance against the same operands on one shared sorted list, result variables == set union (each once) with matching array shapes, == <=> equal by name with missing == 0. Non-trivial: layouts neither identical nor value-equal and (a shared name in a different relative order or a name private to one side).".into()
    }

    fn floors(&self, tier: Tier) -> Vec<Floor> {
        let m = tier.pick(2000u64, 20000);
        ["layouts:arc-shared", "layouts:value-equal", "layouts:same-set-other-order", "layouts:superset", "layouts:subset", "layouts:disjoint", "layouts:equal-length-overlap", "layouts:one-empty", "eq:true", "eq:false", "zero-padding", "memory:reversed-arrays", "wide:>16-names", "eq:infinite-derivative"]
            .iter()
            .map(|l| Floor { label: l, min: m })
            .collect()
    }

    fn assumptions(&self) -> Vec<String> {
        vec![
            "results are read from the result's own vars()/dual()/dual2() arrays (not through gradient1/gradient2, which are C17's subject)".into(),
            "the order of names on a result is not asserted, only the set".into(),
            "values are kept away from zero divisors; tolerance 1e-13 x the sum of absolute terms of each by-name formula".into(),
        ]
    }
}

pub fn ordered_subsets(n: u8) -> Vec<Vec<u8>> {
    fn rec(n: u8, cur: &mut Vec<u8>, out: &mut Vec<Vec<u8>>) {
        out.push(cur.clone());
        for i in 0..n {
            if !cur.contains(&i) {
                cur.push(i);
                rec(n, cur, out);
                cur.pop();
            }
        }
    }
    let mut out = Vec::new();
    rec(n, &mut Vec::new(), &mut out);
    out
}

/// Fixed dyadic content: coefficient depends on the name and on which operand it is.
fn fixed_operand(layout: &[u8], which: u8) -> Operand {
    let n = layout.len();
    let real = if which == 0 { 5.5 } else { -2.25 };
    let d1 = layout.iter().map(|i| Fl(if which == 0 { 0.5 * (*i as f64 + 1.0) } else { -0.25 * (*i as f64 + 2.0) })).collect();
    let mut d2 = Vec::new();
    for i in 0..n {
        for j in i..n {
            let (p, q) = (layout[i].min(layout[j]) as f64, layout[i].max(layout[j]) as f64);
            d2.push(Fl(if which == 0 { 0.125 * (1.0 + p + 4.0 * q) } else { -0.0625 * (3.0 + 2.0 * p + 8.0 * q) }));
        }
    }
    Operand { real: Fl(real), layout: layout.to_vec(), d1, d2 }
}

/// Content that is identical by name on names present in both layouts and zero on the others.
fn equal_operand(layout: &[u8], other: &[u8]) -> Operand {
    let n = layout.len();
    let both = |i: u8| other.contains(&i);
    let d1 = layout.iter().map(|i| Fl(if both(*i) { 0.5 * (*i as f64 + 1.0) } else { 0.0 })).collect();
    let mut d2 = Vec::new();
    for i in 0..n {
        for j in i..n {
            let (p, q) = (layout[i].min(layout[j]) as f64, layout[i].max(layout[j]) as f64);
            d2.push(Fl(if both(layout[i]) && both(layout[j]) { 0.125 * (1.0 + p + 4.0 * q) } else { 0.0 }));
        }
    }
    Operand { real: Fl(1.5), layout: layout.to_vec(), d1, d2 }
}

fn layout8() -> impl Strategy<Value = Vec<u8>> {
    proptest::collection::vec(0u8..8, 0..6).prop_map(|v| {
        let mut out = Vec::new();
        for x in v {
            if !out.contains(&x) {
                out.push(x);
            }
        }
        out
    })
}

fn operand() -> impl Strategy<Value = Operand> {
    (
        moderate(),
        layout8(),
        proptest::collection::vec(prop_oneof![3 => coeff(), 1 => Just(Fl(0.0))], 5),
        proptest::collection::vec(prop_oneof![3 => coeff(), 1 => Just(Fl(0.0))], 15),
    )
        .prop_map(|(real, layout, d1, d2)| Operand { real, layout, d1, d2 })
}

#[derive(Clone, Debug)]
enum Relate {
    Independent,
    /// b := a re-expressed on another layout (equal by name)
    Permuted(Vec<u8>, bool),
    /// as Permuted, then one coefficient of b changed
    OneOff(Vec<u8>, u16, Fl),
}

fn case_strategy() -> impl Strategy<Value = Case> {
    let relate = prop_oneof![
        5 => Just(Relate::Independent),
        2 => (layout8(), any::<bool>()).prop_map(|(l, s)| Relate::Permuted(l, s)),
        2 => (layout8(), any::<u16>(), coeff()).prop_map(|(l, i, c)| Relate::OneOff(l, i, c)),
    ];
    (any::<bool>(), operand(), operand(), any::<bool>(), prop::sample::select(OPS.to_vec()), relate, prop_oneof![3 => Just(0u8), 1 => 1u8..4]).prop_map(|(second_order, a, mut b, share, op, relate, rev)| {
        let re_express = |a: &Operand, extra: &[u8]| -> Operand {
            // a's content on a permuted layout: a's names reversed, then extra names (zero)
            let mut layout: Vec<u8> = a.layout.iter().rev().cloned().collect();
            for e in extra {
                if !layout.contains(e) {
                    layout.push(*e);
                }
            }
            let (d1, d2full) = a.on_list(&layout, true);
            let n = layout.len();
            let mut d2 = Vec::new();
            for i in 0..n {
                for j in i..n {
                    d2.push(Fl(d2full[i * n + j]));
                }
            }
            Operand { real: a.real, layout, d1: d1.into_iter().map(Fl).collect(), d2 }
        };
        let relate_kind: u8 = match &relate {
            Relate::Independent => 0,
            Relate::Permuted(_, inf) => if *inf { 1 } else { 2 },
            Relate::OneOff(..) => 3,
        };
        match relate {
            Relate::Independent => {}
            Relate::Permuted(extra, _) => b = re_express(&a, &extra),
            Relate::OneOff(extra, i, cf) => {
                b = re_express(&a, &extra);
                if !b.d1.is_empty() {
                    let k = pick(i, b.d1.len());
                    if second_order && i % 2 == 1 && !b.d2.is_empty() {
                        let k2 = pick(i, b.d2.len());
                        b.d2[k2] = Fl(b.d2[k2].0 + cf.0 + 0.5);
                    } else {
                        b.d1[k] = Fl(b.d1[k].0 + cf.0 + 0.5);
                    }
                } else {
                    b.real = Fl(b.real.0 + 1.0);
                }
            }
        }
        // equality of numbers that carry an INFINITE derivative (sqrt at 0): equal by name must
        // still mean equal, whatever the layouts (inf - inf is NaN, so "a - b is zero" is not a
        // definition of equality)
        let (mut a, mut b) = (a, b);
        if op == BinOp::Eq && rev & 4 == 0 && matches!(relate_kind, 1) && !a.d1.is_empty() && !a.layout.is_empty() {
            let name = a.layout[0];
            a.d1[0] = Fl(f64::INFINITY);
            if let Some(p) = b.layout.iter().position(|n| *n == name) {
                while b.d1.len() <= p {
                    b.d1.push(Fl(0.0));
                }
                b.d1[p] = Fl(f64::INFINITY);
            }
        }
        Case { second_order, a, b, share, op, rev }
    })
}

/// Wide variable lists (what curves with many nodes produce): 20-70 names out of 100 per operand in
/// any order; b is independent, or a's content on a re-ordered / extended list, or that with one
/// coefficient changed. Sparse content with non-zero entries at any position, early and late.
fn wide_case_strategy() -> impl Strategy<Value = Case> {
    let wide_layout = || (proptest::collection::vec(any::<u16>(), 100), 20usize..=70).prop_map(|(keys, n)| {
        let mut idx: Vec<u8> = (0u8..100).collect();
        idx.sort_by_key(|i| keys[*i as usize]);
        idx.truncate(n);
        idx
    });
    let wide_operand = move || (moderate(), wide_layout(), proptest::collection::vec((any::<u16>(), coeff()), 1..12), proptest::collection::vec((any::<u16>(), any::<u16>(), coeff()), 0..12)).prop_map(|(real, layout, g, h)| {
        let n = layout.len();
        let mut d1 = vec![Fl(0.0); n];
        for (i, c) in g {
            d1[pick(i, n)] = c;
        }
        let mut d2 = vec![Fl(0.0); n * (n + 1) / 2];
        let tri = |i: usize, j: usize| -> usize { let (i, j) = (i.min(j), i.max(j)); i * n - i * (i + 1) / 2 + j };
        for (i, j, c) in h {
            d2[tri(pick(i, n), pick(j, n))] = c;
        }
        // always something at both ends of the list
        d1[n - 1] = Fl(0.75);
        d2[tri(0, n - 1)] = Fl(-0.5);
        d2[tri(n - 1, n - 1)] = Fl(0.25);
        Operand { real, layout, d1, d2 }
    });
    (any::<bool>(), wide_operand(), wide_operand(), prop::sample::select(OPS.to_vec()), 0u8..4, any::<u16>(), any::<u16>(), coeff(), prop_oneof![3 => Just(0u8), 1 => 1u8..4]).prop_map(|(second_order, a, mut b, op, mode, s1, s2, cf, rev)| {
        if mode >= 1 {
            // b := a's content on a's list with two names swapped and b's private names appended
            let mut layout = a.layout.clone();
            let n0 = layout.len();
            layout.swap(pick(s1, n0), pick(s2, n0));
            if mode >= 2 {
                for x in &b.layout {
                    if !layout.contains(x) && layout.len() < 90 {
                        layout.push(*x);
                    }
                }
            }
            let (d1, d2full) = a.on_list(&layout, true);
            let n = layout.len();
            let mut d2 = Vec::new();
            for i in 0..n {
                for j in i..n {
                    d2.push(Fl(d2full[i * n + j]));
                }
            }
            b = Operand { real: a.real, layout, d1: d1.into_iter().map(Fl).collect(), d2 };
            if mode == 3 {
                let k = pick(s2, b.d1.len());
                b.d1[k] = Fl(b.d1[k].0 + cf.0 + 0.5);
            }
        }
        Case { second_order, a, b, share: false, op, rev }
    })
}
