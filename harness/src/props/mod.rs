use crate::engine::{run_property, Opts};

pub mod adcommon;
pub mod c01;
pub mod c02;
pub mod c03;
pub mod c04;
pub mod c05;
pub mod c06;
pub mod c07;
pub mod c08;
pub mod c09;
pub mod c10;
pub mod c11;
pub mod c12;
pub mod c13;
pub mod c14;
pub mod c15;
pub mod c16;
pub mod c17;
pub mod c18;
pub mod c19;
pub mod c20;
pub mod numgen;

/// Run the check of property `id`; None if no such check exists.
pub fn dispatch(id: &str, opts: &Opts) -> Option<i32> {
    Some(match id {
        "C01" => run_property(&c01::C01, opts),
        "C02" => run_property(&c02::C02, opts),
        "C03" => run_property(&c03::C03, opts),
        "C04" => run_property(&c04::C04, opts),
        "C05" => run_property(&c05::C05, opts),
        "C06" => run_property(&c06::C06, opts),
        "C07" => run_property(&c07::C07, opts),
        "C08" => run_property(&c08::C08, opts),
        "C09" => run_property(&c09::C09, opts),
        "C10" => run_property(&c10::C10, opts),
        "C11" => run_property(&c11::C11, opts),
        "C12" => run_property(&c12::C12, opts),
        "C13" => run_property(&c13::C13, opts),
        "C14" => run_property(&c14::C14, opts),
        "C15" => run_property(&c15::C15, opts),
        "C16" => run_property(&c16::C16, opts),
        "C17" => run_property(&c17::C17, opts),
        "C18" => run_property(&c18::C18, opts),
        "C19" => run_property(&c19::C19, opts),
        "C20" => run_property(&c20::C20, opts),
        _ => return None,
    })
}

/// One coverage-guided fuzz iteration of property `id` on the given bytes.
pub fn fuzz_dispatch(id: &str, known: &[crate::engine::KnownFinding], data: &[u8]) -> Option<crate::engine::FuzzOutcome> {
    use crate::engine::fuzz_one;
    Some(match id {
        "C01" => fuzz_one(&c01::C01, known, data),
        "C02" => fuzz_one(&c02::C02, known, data),
        "C03" => fuzz_one(&c03::C03, known, data),
        "C04" => fuzz_one(&c04::C04, known, data),
        "C05" => fuzz_one(&c05::C05, known, data),
        "C06" => fuzz_one(&c06::C06, known, data),
        "C08" => fuzz_one(&c08::C08, known, data),
        "C09" => fuzz_one(&c09::C09, known, data),
        "C10" => fuzz_one(&c10::C10, known, data),
        "C11" => fuzz_one(&c11::C11, known, data),
        "C12" => fuzz_one(&c12::C12, known, data),
        "C13" => fuzz_one(&c13::C13, known, data),
        "C14" => fuzz_one(&c14::C14, known, data),
        "C15" => fuzz_one(&c15::C15, known, data),
        "C16" => fuzz_one(&c16::C16, known, data),
        "C17" => fuzz_one(&c17::C17, known, data),
        "C18" => fuzz_one(&c18::C18, known, data),
        "C19" => fuzz_one(&c19::C19, known, data),
        "C20" => fuzz_one(&c20::C20, known, data),
        _ => return None,
    })
}
