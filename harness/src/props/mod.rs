pub mod c04;
