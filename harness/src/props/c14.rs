//! C14 - B-spline basis: non-negative local partition of unity, correct derivatives.

use crate::engine::*;
use crate::model::bspline::*;
use crate::util::*;
use proptest::prelude::*;
use rateslib::splines::{bspldnev_single_f64, bsplev_single_f64, PPSpline};
use serde::{Deserialize, Serialize};

#[derive(Clone, Debug, Serialize, Deserialize)]
pub struct KnotSpec {
    pub k: usize,
    /// left end in quarters
    pub start_q: i32,
    /// interior knots: (gap to the previous distinct knot in quarters 1..=16, multiplicity)
    pub interior: Vec<(u8, u8)>,
    /// gap from the last interior knot (or the left end) to the right end, in quarters
    pub last_gap_q: u8,
    /// the whole sequence is multiplied by 2^scale_exp (exact): a domain of 1e-18 or of 1e9 (knots
    /// that are POSIX timestamps) must behave like the unit-sized one
    #[serde(default)]
    pub scale_exp: i16,
}

impl KnotSpec {
    pub fn knots(&self) -> Vec<f64> {
        let k = self.k.clamp(1, 6);
        let mut t = vec![self.start_q as f64 * 0.25; k];
        let mut x = self.start_q as f64 * 0.25;
        for (gap, mult) in &self.interior {
            x += (*gap).clamp(1, 16) as f64 * 0.25;
            let m = (*mult as usize).clamp(1, (k - 1).max(1));
            for _ in 0..m {
                t.push(x);
            }
        }
        x += self.last_gap_q.clamp(1, 16) as f64 * 0.25;
        for _ in 0..k {
            t.push(x);
        }
        if self.scale_exp != 0 {
            let s = 2f64.powi(self.scale_exp.clamp(-80, 80) as i32);
            t.iter_mut().for_each(|v| *v *= s);
        }
        t
    }
    pub fn order(&self) -> usize {
        self.k.clamp(1, 6)
    }
}

#[derive(Clone, Debug, Serialize, Deserialize)]
pub enum XSpec {
    /// exactly on the knot with this index (mapped onto the knot vector)
    Knot(u16),
    LeftEnd,
    RightEnd,
    /// midpoint of a non-empty span
    Mid(u16),
    /// the double just below / above a knot
    Neighbour(u16, bool),
    /// fraction of the domain
    Uniform(Fl),
}

#[derive(Clone, Debug, Serialize, Deserialize)]
pub struct Case {
    pub knots: KnotSpec,
    pub xs: Vec<XSpec>,
    /// an evaluation point that is a zero is given the opposite sign of zero (-0.0 for a knot at
    /// +0.0): the same point as a number
    #[serde(default)]
    pub flip_zero: bool,
}

pub struct C14;

pub fn knot_spec() -> impl Strategy<Value = KnotSpec> {
    (1usize..=6, -20i32..=20, proptest::collection::vec((prop_oneof![3 => 1u8..=4, 1 => 5u8..=16], 1u8..=5), 0..=8), prop_oneof![3 => 1u8..=4, 1 => 5u8..=16])
        .prop_map(|(k, start_q, interior, last_gap_q)| KnotSpec { k, start_q, interior, last_gap_q, scale_exp: 0 })
}

/// long knot sequences (a multi-year curve on monthly knots): 58-90 interior knots, mostly simple
pub fn knot_spec_long() -> impl Strategy<Value = KnotSpec> {
    (1usize..=6, -20i32..=20, proptest::collection::vec((1u8..=4, prop_oneof![5 => Just(1u8), 1 => 2u8..=3]), 58..=90), 1u8..=4)
        .prop_map(|(k, start_q, interior, last_gap_q)| KnotSpec { k, start_q, interior, last_gap_q, scale_exp: 0 })
}

/// as `knot_spec`, with the domain scaled by a power of two in 40% of the draws
pub fn knot_spec_scaled() -> impl Strategy<Value = KnotSpec> {
    (knot_spec(), prop_oneof![6 => Just(0i16), 2 => -70i16..=-30, 2 => 20i16..=40]).prop_map(|(mut k, e)| {
        k.scale_exp = e;
        k
    })
}

pub fn x_spec() -> impl Strategy<Value = XSpec> {
    prop_oneof![
        4 => any::<u16>().prop_map(XSpec::Knot),
        1 => Just(XSpec::LeftEnd),
        3 => Just(XSpec::RightEnd),
        2 => any::<u16>().prop_map(XSpec::Mid),
        2 => (any::<u16>(), any::<bool>()).prop_map(|(i, up)| XSpec::Neighbour(i, up)),
        4 => (0.0f64..=1.0).prop_map(|f| XSpec::Uniform(Fl(f))),
    ]
}

pub fn resolve_x(t: &[f64], xs: &XSpec) -> f64 {
    let (a, b) = (t[0], t[t.len() - 1]);
    let x = match xs {
        XSpec::Knot(i) => t[pick(*i, t.len())],
        XSpec::LeftEnd => a,
        XSpec::RightEnd => b,
        XSpec::Mid(i) => {
            let spans: Vec<usize> = (0..t.len() - 1).filter(|j| t[*j] < t[*j + 1]).collect();
            let j = spans[pick(*i, spans.len())];
            0.5 * (t[j] + t[j + 1])
        }
        XSpec::Neighbour(i, up) => {
            let k = t[pick(*i, t.len())];
            let step = |x: f64, up: bool| -> f64 {
                if x == 0.0 {
                    return if up { f64::MIN_POSITIVE } else { -f64::MIN_POSITIVE };
                }
                let bits = x.to_bits();
                let toward_larger_magnitude = (x > 0.0) == up;
                f64::from_bits(if toward_larger_magnitude { bits + 1 } else { bits - 1 })
            };
            step(k, *up)
        }
        XSpec::Uniform(f) => a + (b - a) * f.0,
    };
    x.clamp(a, b)
}

fn case_strategy() -> impl Strategy<Value = Case> {
    (prop_oneof![40 => knot_spec_scaled(), 1 => knot_spec_long()], proptest::collection::vec(x_spec(), 1..6), any::<bool>()).prop_map(|(knots, xs, flip_zero)| Case { knots, xs, flip_zero })
}

/// maximum size of the m-th derivative of p on a span of width h (sum of absolute terms)
fn mag_on_span(p: &[f64], m: usize, h: f64) -> f64 {
    poly_deriv(&p.iter().map(|a| a.abs()).collect::<Vec<_>>(), m, h).0
}

impl Property for C14 {
    type Case = Case;
    fn id(&self) -> &'static str {
        "C14"
    }

    fn check(&self, c: &Case) -> Verdict {
        let mut v = Verdict::new();
        let k = c.knots.order();
        let t = c.knots.knots();
        let n = t.len() - k;
        let reference = basis(k, &t);
        v.label(intern(format!("order:{}", k)));
        let repeated_interior = c.knots.interior.iter().any(|(_, m)| (*m as usize).clamp(1, (k - 1).max(1)) >= 2);
        v.label_if(repeated_interior, "knots:repeated-interior");
        v.label_if(c.knots.interior.is_empty(), "knots:no-interior");
        v.label_if(c.knots.scale_exp < 0, "domain:tiny");
        v.label_if(c.knots.scale_exp > 0, "domain:huge");
        v.label_if(t.len() >= 64, "knots:>=64");
        let last = t[t.len() - 1];
        for xs in &c.xs {
            let x = resolve_x(&t, xs);
            let x = if c.flip_zero && x == 0.0 { -x } else { x };
            v.label_if(c.flip_zero && x == 0.0, "x:zero-of-the-other-sign");
            v.label_if(c.flip_zero && x == 0.0 && x == last, "x:zero-of-the-other-sign:right-end");
            let at_right_end = x == last;
            let on_interior_knot = t[k..n].contains(&x);
            v.label_if(at_right_end, "x:right-end");
            v.label_if(on_interior_knot, "x:interior-knot");
            v.label_if(matches!(xs, XSpec::Neighbour(..)), "x:knot-neighbour");
            v.nt(k >= 3 && (on_interior_knot || at_right_end));
            let j = match span_of(&t, x) {
                Some(j) => j,
                None => continue,
            };
            let h = t[j + 1] - t[j];
            for m in 0..=k + 1 {
                let mut sum = 0.0;
                let mut sum_scale = 0.0;
                for i in 0..n {
                    let got = match catch(|| if m == 0 { bsplev_single_f64(&x, i, &k, &t, None) } else { bspldnev_single_f64(&x, i, &k, &t, m, None) }) {
                        Ok(g) => g,
                        Err(p) => {
                            v.fail(format!("basis evaluation | panic | {}", p.site()), format!("k={} t={:?} i={} m={} x={:?}: {}", k, t, i, m, x, p.message));
                            return v;
                        }
                    };
                    let (exp, _) = reference[i].eval(&t, x, m);
                    let scale = mag_on_span(&reference[i].spans[j], m, h) + if m == 0 { 1.0 } else { 0.0 };
                    sum += got;
                    sum_scale += scale;
                    if m == 0 {
                        // also through the derivative entry point with m = 0
                        let alt = bspldnev_single_f64(&x, i, &k, &t, 0, None);
                        if alt.to_bits() != got.to_bits() {
                            v.fail("derivative of order 0 differs from the value", format!("k={} t={:?} i={} x={:?}: {:e} vs {:e}", k, t, i, x, alt, got));
                            return v;
                        }
                        if got < -1e-13 {
                            v.fail("a basis function is negative", format!("k={} t={:?} i={} x={:?}: {:e}", k, t, i, x, got));
                            return v;
                        }
                        if (x < t[i] || x > t[i + k]) && got != 0.0 {
                            v.fail("a basis function does not vanish outside its k knot spans", format!("k={} t={:?} i={} x={:?}: {:e}", k, t, i, x, got));
                            return v;
                        }
                    }
                    if m >= k && got != 0.0 {
                        v.fail("derivative of order >= k is not zero", format!("k={} t={:?} i={} m={} x={:?}: {:e}", k, t, i, m, x, got));
                        return v;
                    }
                    if !((got - exp).abs() <= 1e-10 * scale + 1e-300) {
                        let side = if at_right_end { "left limit at the right end point" } else { "right limit" };
                        v.fail(
                            format!("{} differs from the Cox-de Boor polynomial | {}", if m == 0 { "value" } else { "derivative" }, if at_right_end { "right end" } else if on_interior_knot { "interior knot" } else { "inside a span" }),
                            format!("k={} t={:?} i={} m={} x={:?} ({}): got {:e}, polynomial {:e}", k, t, i, m, x, side, got, exp),
                        );
                        return v;
                    }
                    if m >= 2 && at_right_end {
                        v.label("x:right-end,m>=2");
                    }
                }
                let target = if m == 0 { 1.0 } else { 0.0 };
                if !((sum - target).abs() <= 1e-11 * sum_scale + 1e-300) {
                    v.fail(
                        if m == 0 { "basis functions do not sum to one" } else { "derivatives of the basis functions do not sum to zero" },
                        format!("k={} t={:?} m={} x={:?}: sum {:e}", k, t, m, x, sum),
                    );
                    return v;
                }
            }
        }
        // the vectorised entry points of the spline object (what Python's bspldnev / bsplmatrix
        // call) must return, point for point, what the scalar functions return
        let pts: Vec<f64> = c.xs.iter().map(|xs| resolve_x(&t, xs)).map(|x| if c.flip_zero && x == 0.0 { -x } else { x }).filter(|x| span_of(&t, *x).is_some()).collect();
        if !pts.is_empty() {
            let (left_n, right_n) = (pts.len() % (k + 1), (pts.len() + n) % (k + 1));
            let r = catch(|| {
                let sp = PPSpline::<f64>::new(k, t.clone(), None);
                let vecs: Vec<Vec<Vec<f64>>> = (0..n).map(|i| (0..=k).map(|m| sp.bspldnev(&pts, &i, &m)).collect()).collect();
                (vecs, sp.bsplmatrix(&pts, left_n, right_n))
            });
            match r {
                Ok((vecs, mat)) => {
                    for i in 0..n {
                        for m in 0..=k {
                            for (q, x) in pts.iter().enumerate() {
                                let scalar = bspldnev_single_f64(x, i, &k, &t, m, None);
                                if vecs[i][m].len() != pts.len() || vecs[i][m][q].to_bits() != scalar.to_bits() {
                                    v.fail("vectorised basis evaluation differs from the scalar function", format!("k={} t={:?} i={} m={} x={:?}: PPSpline::bspldnev {:?}, scalar {:e}", k, t, i, m, x, vecs[i][m].get(q), scalar));
                                    return v;
                                }
                            }
                        }
                        for (q, x) in pts.iter().enumerate() {
                            let m = if q == pts.len() - 1 { right_n } else if q == 0 { left_n } else { 0 };
                            let scalar = bspldnev_single_f64(x, i, &k, &t, m, None);
                            if mat.dim() != (pts.len(), n) || mat[[q, i]].to_bits() != scalar.to_bits() {
                                v.fail("collocation matrix entry differs from the scalar basis function", format!("k={} t={:?} sites {:?} end orders ({}, {}): entry [{}, {}] = {:?}, scalar {:e}", k, t, pts, left_n, right_n, q, i, mat.get([q, i]), scalar));
                                return v;
                            }
                        }
                    }
                }
                Err(p) => {
                    v.fail(format!("vectorised basis evaluation | panic | {}", p.site()), format!("k={} t={:?} x={:?}: {}", k, t, pts, p.message));
                    return v;
                }
            }
        }
        v
    }

    fn plan(&self, tier: Tier) -> Vec<Stage<Case>> {
        vec![Stage::random("random", tier.pick(800_000, 25_000_000), case_strategy)]
    }

    fn rule(&self) -> String {
        "random (order k in 1..6, knot sequence with k-fold end knots and 0-8 interior knots on a quarter grid with multiplicity <= max(1, k-1) and spans 0.25..4, 2.5% of the sequences are long (58-90 interior knots, 64-190 knots in all); the whole sequence scaled by 2^-70..-30 or 2^20..40 in 40% of draws (domains of 1e-18 and of 1e9 such as POSIX timestamps), 1-5 evaluation points drawn exactly on knots, at both end points, at span midpoints, at the doubles adjacent to knots, and uniformly; in half of the cases a point that is zero is passed as -0.0); for every point ALL basis indices i and ALL derivative orders m = 0..k+1 are evaluated. Oracle: Cox-de Boor carried out on polynomial coefficient vectors per knot span (right limit; left limit at the right end point): equality within 1e-10 x the polynomial's size on the span, non-negativity, exact zero outside [t_i, t_(i+k)], sum_i B_i = 1, sum_i B_i^(m) = 0, exact zero for m >= k; the vectorised entry points PPSpline::bspldnev and ::bsplmatrix (all i, m; end-row orders varied) agree bit-for-bit with the scalar functions. Non-trivial: k >= 3 and the point is an interior knot or the right end point.".into()
    }

    fn floors(&self, tier: Tier) -> Vec<Floor> {
        let n = tier.pick(800_000u64, 25_000_000);
        vec![
            Floor { label: "x:right-end", min: n / 4 },
            Floor { label: "x:interior-knot", min: n / 4 },
            Floor { label: "knots:repeated-interior", min: n / 7 },
            Floor { label: "x:right-end,m>=2", min: n / 4 },
            Floor { label: "x:knot-neighbour", min: n / 10 },
            Floor { label: "order:1", min: n / 10 },
            Floor { label: "order:6", min: n / 10 },
            Floor { label: "domain:tiny", min: n / 10 },
            Floor { label: "domain:huge", min: n / 10 },
            Floor { label: "knots:>=64", min: n / 100 },
            Floor { label: "x:zero-of-the-other-sign", min: n / 200 },
            Floor { label: "x:zero-of-the-other-sign:right-end", min: n / 5000 },
        ]
    }
}
