//! C15 - A solved spline reproduces data, end conditions and polynomials, with exact AD.

use crate::engine::*;
use crate::model::bspline::*;
use crate::props::c14::{knot_spec, resolve_x, x_spec, KnotSpec, XSpec};
use crate::util::*;
use proptest::prelude::*;
use rateslib::dual::{Dual, Dual2, Gradient1, Gradient2, Number, NumberMapping};
use rateslib::splines::{bspldnev_single_dual, bspldnev_single_dual2, bspldnev_single_f64, bsplev_single_dual, bsplev_single_dual2, PPSpline};
use serde::{Deserialize, Serialize};

#[derive(Clone, Debug, Serialize, Deserialize)]
pub enum Layout {
    /// Greville sites (always admissible), value rows everywhere except the two end rows,
    /// which are derivative rows of the given orders (0 = value)
    Greville { left_n: u8, right_n: u8 },
    /// the callers' layout for order 4 with distinct interior knots:
    /// sites [a, a, interior knots.., b, b] with end-derivative order 1 (clamped) or 2 (natural)
    Natural { n: u8 },
}

#[derive(Clone, Debug, Serialize, Deserialize)]
pub enum Data {
    Random(Vec<Fl>),
    /// samples of a polynomial of degree < k (coefficients in the monomial basis around the
    /// left end of the domain)
    Poly(Vec<Fl>),
}

#[derive(Clone, Debug, Serialize, Deserialize)]
pub struct Case {
    pub knots: KnotSpec,
    pub layout: Layout,
    pub data: Data,
    /// 0 float data, 1 first-order data (datum j tagged y{j}), 2 second-order data
    pub data_kind: u8,
    pub evals: Vec<XSpec>,
    /// number of extra (interior, uniformly spread) sites for a least-squares solve; 0 = square
    pub lsq_extra: u8,
    /// derivative content of the dual abscissa over two variables (u, w): first-order
    /// coefficients (c_u, c_w) and second-order storage (s_uu, s_uw, s_ww); None = the plain
    /// variable x with unit sensitivity
    #[serde(default)]
    pub abscissa: Option<[Fl; 5]>,
    /// the same problem is solved a second time on a domain multiplied by 2^rescale_exp (knots and
    /// sites scaled, derivative data divided by the matching power): same coefficients expected
    #[serde(default)]
    pub rescale_exp: i16,
    /// the interior data sites (with their data) are handed over in another order: rotated by this
    /// many places, reversed if the top bit is set; 0 = ascending as built
    #[serde(default)]
    pub site_perm: u16,
    /// Some(n): instead of solving, a spline on a LONG knot sequence (257 + n % 120 interior knots, some
    /// repeated) with given coefficients is evaluated at its first knot, at knots of every
    /// multiplicity, between knots and at the right end, for every derivative order, against the
    /// sum of coefficients x basis functions
    #[serde(default)]
    pub long_eval: Option<u16>,
}

pub struct C15;

type M = Vec<Vec<f64>>;

fn inverse(a: &M) -> Option<M> {
    let n = a.len();
    let mut m: M = a.iter().enumerate().map(|(i, r)| r.iter().cloned().chain((0..n).map(|j| if i == j { 1.0 } else { 0.0 })).collect()).collect();
    for j in 0..n {
        let (mut p, mut best) = (j, m[j][j].abs());
        for i in j + 1..n {
            if m[i][j].abs() > best {
                best = m[i][j].abs();
                p = i;
            }
        }
        if best < 1e-13 {
            return None;
        }
        m.swap(p, j);
        let d = m[j][j];
        for k in 0..2 * n {
            m[j][k] /= d;
        }
        for i in 0..n {
            if i != j && m[i][j] != 0.0 {
                let f = m[i][j];
                for k in 0..2 * n {
                    m[i][k] -= f * m[j][k];
                }
            }
        }
    }
    Some(m.into_iter().map(|r| r[n..].to_vec()).collect())
}
fn norm1(a: &M) -> f64 {
    (0..a[0].len()).map(|j| a.iter().map(|r| r[j].abs()).sum::<f64>()).fold(0.0, f64::max)
}

fn poly_eval(coef: &[f64], a: f64, x: f64, m: usize) -> (f64, f64) {
    poly_deriv(coef, m, x - a)
}

fn case_strategy() -> impl Strategy<Value = Case> {
    (
        knot_spec(),
        prop_oneof![
            4 => (0u8..=2, 0u8..=2).prop_map(|(l, r)| Layout::Greville { left_n: l, right_n: r }),
            3 => (1u8..=2).prop_map(|n| Layout::Natural { n }),
        ],
        prop_oneof![
            2 => proptest::collection::vec((-3.0f64..3.0).prop_map(Fl), 24).prop_map(Data::Random),
            1 => proptest::collection::vec((-2.0f64..2.0).prop_map(Fl), 6).prop_map(Data::Poly),
        ],
        0u8..3,
        proptest::collection::vec(x_spec(), 1..5),
        prop_oneof![4 => Just(0u8), 1 => 1u8..=6],
        proptest::option::weighted(0.7, [coeff(), coeff(), coeff(), coeff(), coeff()]),
        prop_oneof![6 => Just(0i16), 2 => -70i16..=-30, 2 => 20i16..=40],
        prop_oneof![2 => Just(0u16), 1 => any::<u16>()],
    )
        .prop_map(|(mut knots, layout, data, data_kind, evals, lsq_extra, abscissa, rescale_exp, site_perm)| {
            knots.k = knots.k.max(2);
            if let Layout::Natural { .. } = layout {
                knots.k = 4;
                // distinct interior knots, at least one
                for m in knots.interior.iter_mut() {
                    m.1 = 1;
                }
                if knots.interior.is_empty() {
                    knots.interior.push((2, 1));
                }
            }
            Case { knots, layout, data, data_kind, evals, lsq_extra, abscissa, rescale_exp, site_perm, long_eval: None }
        })
}

struct Setup {
    k: usize,
    t: Vec<f64>,
    n: usize,
    tau: Vec<f64>,
    left_n: usize,
    right_n: usize,
    y: Vec<f64>,
    poly: Option<Vec<f64>>,
    lsq: bool,
}

fn setup(c: &Case) -> Setup {
    let k = c.knots.order().max(2);
    let t = c.knots.knots();
    let n = t.len() - k;
    let (a, b) = (t[0], t[t.len() - 1]);
    let (mut tau, left_n, right_n): (Vec<f64>, usize, usize) = match &c.layout {
        Layout::Greville { left_n, right_n } => {
            let tau = (0..n).map(|i| t[i + 1..i + k].iter().sum::<f64>() / (k - 1) as f64).collect();
            ((tau), (*left_n as usize).min(k - 1), (*right_n as usize).min(k - 1))
        }
        Layout::Natural { n: nd } => {
            let mut tau = vec![a, a];
            tau.extend(t[k..n].iter().cloned());
            tau.push(b);
            tau.push(b);
            (tau, *nd as usize, *nd as usize)
        }
    };
    let lsq = c.lsq_extra > 0 && matches!(c.layout, Layout::Greville { .. });
    if lsq {
        // extra interior sites spread over the domain (kept between the two end rows)
        let last = tau.pop().unwrap();
        for e in 0..c.lsq_extra {
            tau.push(a + (b - a) * (e as f64 + 0.5) / (c.lsq_extra as f64 + 0.5) * 0.97 + 0.01 * (b - a));
        }
        let mut mid: Vec<f64> = tau.split_off(1);
        mid.sort_by(|p, q| p.partial_cmp(q).unwrap());
        tau.extend(mid);
        tau.push(last);
    }
    let (y, poly) = match &c.data {
        Data::Random(v) => ((0..tau.len()).map(|j| v[j % v.len()].0).collect(), None),
        Data::Poly(cf) => {
            let coef: Vec<f64> = cf.iter().take(k).map(|f| f.0).collect();
            let last = tau.len() - 1;
            let y = (0..tau.len())
                .map(|j| {
                    let m = if j == 0 { left_n } else if j == last { right_n } else { 0 };
                    poly_eval(&coef, a, tau[j], m).0
                })
                .collect();
            (y, Some(coef))
        }
    };
    Setup { k, t, n, tau, left_n, right_n, y, poly, lsq }
}

impl Property for C15 {
    type Case = Case;
    fn id(&self) -> &'static str {
        "C15"
    }

    fn check(&self, c: &Case) -> Verdict {
        let mut v = Verdict::new();
        if let Some(extra) = c.long_eval {
            v.label("long-knot-sequence:evaluation");
            v.nt(true);
            let k = c.knots.order().max(2);
            let interior = 257 + (extra as usize % 120);
            let mut t = vec![0.0; k];
            for i in 1..=interior {
                let mult = match (i + extra as usize) % 11 { 0 => (k - 1).max(1), 5 => 2.min((k - 1).max(1)), _ => 1 };
                for _ in 0..mult {
                    t.push(i as f64 * 0.25);
                }
            }
            let end = (interior + 1) as f64 * 0.25;
            t.extend(std::iter::repeat(end).take(k));
            let n = t.len() - k;
            let data: Vec<f64> = match &c.data { Data::Random(v) => fls(v), Data::Poly(v) => fls(v) };
            let coef: Vec<f64> = (0..n).map(|i| data[i % data.len()] + 0.25 * ((i % 5) as f64)).collect();
            let sp = PPSpline::<f64>::new(k, t.clone(), Some(coef.clone()));
            let mut xs: Vec<f64> = vec![t[0], end, 0.125, t[k], t[k] + 0.1];
            for (j, e) in c.evals.iter().enumerate() {
                let x = resolve_x(&c.knots.knots(), e);
                let frac = if x.is_finite() { (x.abs() * 0.37 + j as f64 * 0.11).fract() } else { 0.5 };
                let idx = (frac * interior as f64) as usize;
                xs.push((idx as f64) * 0.25);           // a knot (or the left end)
                xs.push((idx as f64) * 0.25 + 0.07);    // inside a span
            }
            for i in [5usize, 11, 16, 22, 27] {
                xs.push(((i + extra as usize % 11) as f64) * 0.25); // knots of the repeated kinds
            }
            for x in xs.into_iter().filter(|x| *x >= 0.0 && *x <= end) {
                for m in 0..=k {
                    let (mut exp, mut mag) = (0.0, 0.0);
                    for i in 0..n {
                        let b = bspldnev_single_f64(&x, i, &k, &t, m, None);
                        exp += coef[i] * b;
                        mag += (coef[i] * b).abs();
                    }
                    match catch(|| sp.ppdnev_single(&x, m)) {
                        Ok(Ok(g)) => {
                            if !((g - exp).abs() <= 1e-10 * mag + 1e-300) {
                                v.fail("spline evaluation differs from coefficients x basis functions on a long knot sequence", format!("k={} knots={} x={:?} m={}: {:e} vs {:e}", k, t.len(), x, m, g, exp));
                                return v;
                            }
                        }
                        Ok(Err(_)) => {
                            v.fail("evaluating a solved spline returned an error", format!("long knot sequence, x={:?}", x));
                            return v;
                        }
                        Err(p) => {
                            v.fail(format!("ppdnev_single | panic | {}", p.site()), p.message);
                            return v;
                        }
                    }
                }
            }
            return v;
        }
        let s = setup(c);
        let (k, t, n) = (s.k, &s.t, s.n);
        let reference = basis(k, t);
        let rows = s.tau.len();
        // reference collocation matrix
        let bmat: M = (0..rows)
            .map(|j| {
                let m = if j == 0 { s.left_n } else if j == rows - 1 { s.right_n } else { 0 };
                (0..n).map(|i| reference[i].eval(t, s.tau[j], m).0).collect()
            })
            .collect();
        let square: M = if s.lsq {
            (0..n).map(|i| (0..n).map(|j| (0..rows).map(|r| bmat[r][i] * bmat[r][j]).sum()).collect()).collect()
        } else {
            bmat.clone()
        };
        let inv = match inverse(&square) {
            Some(i) => i,
            None => {
                v.label("skipped:singular-site-set");
                return v;
            }
        };
        let cond = norm1(&square) * norm1(&inv);
        if !(cond < 1e8) {
            v.label("skipped:ill-conditioned-site-set");
            return v;
        }
        v.label(intern(format!("order:{}", k)));
        v.label(match &c.layout {
            Layout::Natural { n: 2 } => "layout:natural",
            Layout::Natural { .. } => "layout:clamped",
            Layout::Greville { left_n: 0, right_n: 0 } => "layout:greville-values",
            Layout::Greville { .. } => "layout:greville-end-derivatives",
        });
        v.label_if(s.lsq, "least-squares");
        v.label_if(s.poly.is_some(), "data:polynomial");
        let interior_knots = n > k;
        v.nt(k >= 3 && interior_knots && (s.poly.is_none() || c.data_kind % 3 != 0));
        let tol = 1e-9 * cond;
        let yscale = s.y.iter().fold(1.0f64, |m, x| m.max(x.abs()));

        // ---------------- float spline: solve, coefficients, evaluation
        let mut sp = PPSpline::<f64>::new(k, t.clone(), None);
        match catch(|| sp.ppdnev_single(&t[0], 0)) {
            Ok(Err(_)) => {}
            Ok(Ok(_)) => {
                v.fail("evaluating an unsolved spline is not an error", "".to_string());
                return v;
            }
            Err(p) => {
                v.fail(format!("ppdnev_single unsolved | panic | {}", p.site()), p.message);
                return v;
            }
        }
        // error inputs
        let short = &s.tau[..rows - 1];
        match catch(|| {
            let mut e1 = PPSpline::<f64>::new(k, t.clone(), None);
            let r1 = e1.csolve(short, &s.y[..rows - 1], s.left_n, s.right_n, false).is_err() || rows - 1 == n;
            let mut e2 = PPSpline::<f64>::new(k, t.clone(), None);
            let r2 = e2.csolve(&s.tau, &s.y[..rows - 1], s.left_n, s.right_n, s.lsq).is_err();
            let mut e3 = PPSpline::<f64>::new(k, t.clone(), None);
            let r3 = if s.lsq { e3.csolve(&s.tau, &s.y, s.left_n, s.right_n, false).is_err() } else { true };
            // fewer sites than coefficients is an error with least squares allowed too
            let few = n.saturating_sub(1).min(rows - 1);
            let r4 = if few >= 1 {
                let mut e4 = PPSpline::<f64>::new(k, t.clone(), None);
                let mut e5 = PPSpline::<Dual>::new(k, t.clone(), None);
                let yd: Vec<Dual> = s.y[..few].iter().map(|y| Dual::new(*y, vec![])).collect();
                e4.csolve(&s.tau[..few], &s.y[..few], s.left_n, s.right_n, true).is_err() && e5.csolve(&s.tau[..few], &yd, s.left_n, s.right_n, true).is_err()
            } else {
                true
            };
            (r1, r2, r3 && r4)
        }) {
            Ok((true, true, true)) => {}
            Ok(r) => {
                v.fail("mismatched site counts are not reported as errors", format!("(too few sites, y shorter than tau, extra sites without lsq / too few sites with lsq) rejected: {:?}", r));
                return v;
            }
            Err(p) => {
                v.fail(format!("csolve error inputs | panic | {}", p.site()), p.message);
                return v;
            }
        }
        match catch(|| sp.csolve(&s.tau, &s.y, s.left_n, s.right_n, s.lsq)) {
            Ok(Ok(())) => {}
            Ok(Err(_)) => {
                v.fail("csolve rejected an admissible site set", format!("k={} t={:?} tau={:?}", k, t, s.tau));
                return v;
            }
            Err(p) => {
                v.fail(format!("csolve | panic | {}", p.site()), format!("k={} t={:?} tau={:?}: {}", k, t, s.tau, p.message));
                return v;
            }
        }
        let coef: Vec<f64> = sp.c().as_ref().map(|c| c.to_vec()).unwrap_or_default();
        if coef.len() != n {
            v.fail("solved spline does not have n coefficients", format!("{} vs {}", coef.len(), n));
            return v;
        }
        // history independence: a spline object solved first on other data (and on a failed call)
        // and then on these data holds the same coefficients as the freshly solved one
        {
            let other: Vec<f64> = s.y.iter().rev().map(|y| 1.0 - 0.5 * y).collect();
            match catch(|| {
                let mut q = PPSpline::<f64>::new(k, t.clone(), None);
                let first = q.csolve(&s.tau, &other, s.left_n, s.right_n, s.lsq).is_ok();
                let _ = q.csolve(&s.tau, &s.y[..rows - 1], s.left_n, s.right_n, s.lsq);
                let second = q.csolve(&s.tau, &s.y, s.left_n, s.right_n, s.lsq).is_ok();
                (first, second, q.c().as_ref().map(|c| c.to_vec()).unwrap_or_default(), q == sp)
            }) {
                Ok((true, true, again, equal)) => {
                    if again.len() != coef.len() || again.iter().zip(coef.iter()).any(|(a, b)| a.to_bits() != b.to_bits()) || !equal {
                        v.fail("re-solving a spline object does not give the coefficients of a fresh solve", format!("k={} t={:?} tau={:?}: {:?} vs {:?} (== {})", k, t, s.tau, again, coef, equal));
                        return v;
                    }
                }
                Ok(r) => {
                    v.fail("csolve rejected an admissible site set", format!("on re-solve: {:?}", (r.0, r.1)));
                    return v;
                }
                Err(p) => {
                    v.fail(format!("csolve | panic | {}", p.site()), format!("re-solve, k={} t={:?} tau={:?}: {}", k, t, s.tau, p.message));
                    return v;
                }
            }
        }
        // order of the data sites: the interior sites (first and last row keep their end-condition
        // role) listed in another order describe the same system with its rows permuted
        if c.site_perm != 0 && rows >= 4 {
            let inner = rows - 2;
            let mut order: Vec<usize> = (1..rows - 1).collect();
            order.rotate_left((c.site_perm as usize & 0x7fff) % inner);
            if c.site_perm & 0x8000 != 0 {
                order.reverse();
            }
            if order.windows(2).any(|w| w[0] > w[1]) {
                v.label("sites:unsorted");
                let idx: Vec<usize> = std::iter::once(0).chain(order.into_iter()).chain(std::iter::once(rows - 1)).collect();
                let tau_p: Vec<f64> = idx.iter().map(|j| s.tau[*j]).collect();
                let y_p: Vec<f64> = idx.iter().map(|j| s.y[*j]).collect();
                let cs0 = coef.iter().fold(s.y.iter().fold(1.0f64, |m, x| m.max(x.abs())), |m, x| m.max(x.abs()));
                match catch(|| {
                    let mut q = PPSpline::<f64>::new(k, t.clone(), None);
                    let ok = q.csolve(&tau_p, &y_p, s.left_n, s.right_n, s.lsq).is_ok();
                    (ok, q.c().as_ref().map(|c| c.to_vec()).unwrap_or_default())
                }) {
                    Ok((true, cp)) => {
                        if cp.len() != n || (0..n).any(|i| !((cp[i] - coef[i]).abs() <= 1e-9 * cond * cs0)) {
                            v.fail("the order in which the data sites are listed changes the solution", format!("k={} t={:?} sites {:?} (ascending: {:?}) end orders ({}, {}) lsq={}: {:?} vs {:?}", k, t, tau_p, s.tau, s.left_n, s.right_n, s.lsq, cp, coef));
                            return v;
                        }
                    }
                    Ok((false, _)) => {
                        v.fail("csolve rejected an admissible site set", format!("sites listed as {:?}", tau_p));
                        return v;
                    }
                    Err(p) => {
                        v.fail(format!("csolve | panic | {}", p.site()), format!("sites listed as {:?}: {}", tau_p, p.message));
                        return v;
                    }
                }
            }
        }
        // scale covariance: the same problem on a domain multiplied by a power of two (exact) has the
        // same coefficients; values agree and m-th derivatives scale by s^-m. Domains of 1e-18 and
        // of 1e9 (knots that are POSIX timestamps) are what callers use.
        // (a least-squares fit that contains derivative rows is not scale covariant: the rows are
        // re-weighted against the value rows by s^-m, so it is left out)
        if c.rescale_exp != 0 && !(s.lsq && (s.left_n > 0 || s.right_n > 0)) {
            v.label(if c.rescale_exp < 0 { "domain:rescaled-tiny" } else { "domain:rescaled-huge" });
            let sc = 2f64.powi(c.rescale_exp.clamp(-80, 80) as i32);
            let ts: Vec<f64> = t.iter().map(|x| x * sc).collect();
            let taus: Vec<f64> = s.tau.iter().map(|x| x * sc).collect();
            let ys: Vec<f64> = (0..rows).map(|j| s.y[j] / sc.powi(if j == 0 { s.left_n as i32 } else if j == rows - 1 { s.right_n as i32 } else { 0 })).collect();
            let cscale0 = coef.iter().fold(s.y.iter().fold(1.0f64, |m, x| m.max(x.abs())), |m, x| m.max(x.abs()));
            match catch(|| {
                let mut q = PPSpline::<f64>::new(k, ts.clone(), None);
                let ok = q.csolve(&taus, &ys, s.left_n, s.right_n, s.lsq).is_ok();
                let cs = q.c().as_ref().map(|c| c.to_vec()).unwrap_or_default();
                // (points whose product with the scale is not exact - subnormal neighbours of a knot at
                // zero - would land on another side of the knot and are left out)
                let evals: Vec<(f64, Vec<f64>)> = c.evals.iter().map(|e| resolve_x(t, e)).filter(|x| (x * sc) / sc == *x && (*x == 0.0 || (x * sc).is_normal())).map(|x| (x, (0..k).map(|m| q.ppdnev_single(&(x * sc), m).unwrap_or(f64::NAN) * sc.powi(m as i32)).collect())).collect();
                (ok, cs, evals)
            }) {
                Ok((true, cs, evals)) => {
                    // A domain of 1e6 .. 1e12 makes derivative rows 1e-12 .. 1e-24 times smaller than
                    // value rows. Gaussian elimination with partial pivoting is then only accurate
                    // relative to the largest rows (measured on the pinned tree: end conditions of the
                    // natural / clamped layout are met to 2e-6 of their own terms or better, of
                    // Greville layouts of order 5-6 sometimes not at all), which is the algorithm's
                    // known sensitivity to row scaling and not something the property rules out.
                    // There the relation is reduced to: data rows are reproduced, and the end
                    // conditions of the callers' natural / clamped layout are met to 5% of their own
                    // terms (a change that drops them entirely is still seen).
                    let tiny_rows = c.rescale_exp > 0 && (s.left_n > 0 || s.right_n > 0);
                    if tiny_rows && cs.len() == n {
                        let rr = |j: usize| -> f64 {
                            let r: f64 = (0..n).map(|i| bmat[j][i] * cs[i]).sum::<f64>() - s.y[j];
                            // relative to the row's own size times the size of the coefficients (a datum of
                            // 1e-32 next to coefficients of order 1 is reproduced up to rounding noise only)
                            let row_max = (0..n).map(|i| bmat[j][i].abs()).fold(0.0f64, f64::max);
                            let m: f64 = (0..n).map(|i| (bmat[j][i] * cs[i]).abs()).sum::<f64>() + s.y[j].abs() + row_max * cscale0;
                            if m == 0.0 { 0.0 } else { r.abs() / m }
                        };
                        v.label("domain:rescaled-huge:derivative-rows");
                        if !s.lsq {
                            for j in 0..rows {
                                let end_row = (j == 0 && s.left_n > 0) || (j == rows - 1 && s.right_n > 0);
                                let allowed = if !end_row { 1e-9 * cond } else if matches!(c.layout, Layout::Natural { .. }) { 5e-2 } else { f64::INFINITY };
                                if !(rr(j) <= allowed) {
                                    v.fail(
                                        if end_row { "end condition is not met on a rescaled domain" } else { "data are not reproduced on a rescaled domain" },
                                        format!("k={} t={:?} tau={:?} end orders ({}, {}) scale 2^{}: row {} relative residual {:e}", k, t, s.tau, s.left_n, s.right_n, c.rescale_exp, j, rr(j)),
                                    );
                                    return v;
                                }
                            }
                        }
                    } else if cs.len() != n || (0..n).any(|i| !((cs[i] - coef[i]).abs() <= 1e-8 * cond * cscale0)) {
                        v.fail("solving on a rescaled domain gives different coefficients", format!("k={} t={:?} tau={:?} end orders ({}, {}) lsq={} scale 2^{}: {:?} vs {:?} (cond {:.1e})", k, t, s.tau, s.left_n, s.right_n, s.lsq, c.rescale_exp, cs, coef, cond));
                        return v;
                    }
                    for (x, ders) in evals.into_iter().filter(|_| !tiny_rows) {
                        for m in 0..k {
                            let unscaled = sp.ppdnev_single(&x, m).unwrap_or(f64::NAN);
                            // coefficient differences within their allowance, carried through the basis
                            let bsum: f64 = (0..n).map(|i| reference[i].eval(t, x, m).1.max(reference[i].eval(t, x, m).0.abs())).sum();
                            if !((ders[m] - unscaled).abs() <= 1e-8 * cond * cscale0 * (1.0 + bsum)) {
                                v.fail("evaluating on a rescaled domain is not the rescaled evaluation", format!("k={} t={:?} x={:?} m={} scale 2^{}: {:e} (scaled back) vs {:e}", k, t, x, m, c.rescale_exp, ders[m], unscaled));
                                return v;
                            }
                        }
                    }
                }
                Ok((false, _, _)) => {
                    v.fail("csolve rejected an admissible site set", format!("on the domain rescaled by 2^{}: k={} t={:?} tau={:?}", c.rescale_exp, k, t, s.tau));
                    return v;
                }
                Err(p) => {
                    v.fail(format!("csolve | panic | {}", p.site()), format!("rescaled by 2^{}, k={} t={:?} tau={:?}: {}", c.rescale_exp, k, t, s.tau, p.message));
                    return v;
                }
            }
        }
        // spline from the library's coefficients on the reference basis
        let sref = |x: f64, m: usize| -> (f64, f64) {
            let mut val = 0.0;
            let mut mag = 0.0;
            for i in 0..n {
                let (b, bm) = reference[i].eval(t, x, m);
                val += coef[i] * b;
                mag += coef[i].abs() * bm.max(b.abs());
            }
            (val, mag)
        };
        let cscale = coef.iter().fold(yscale, |m, x| m.max(x.abs()));
        // data reproduction (square) / normal equations (least squares)
        if !s.lsq {
            for j in 0..rows {
                let m = if j == 0 { s.left_n } else if j == rows - 1 { s.right_n } else { 0 };
                let (got, mag) = sref(s.tau[j], m);
                if !((got - s.y[j]).abs() <= tol * (mag + s.y[j].abs() + cscale)) {
                    v.fail(
                        if m == 0 { "spline does not pass through a data point" } else { "spline does not meet the requested end derivative condition" },
                        format!("k={} t={:?} tau={:?} row {} (derivative order {}): s = {:e}, y = {:e} (cond {:.1e})", k, t, s.tau, j, m, got, s.y[j], cond),
                    );
                    return v;
                }
            }
        } else {
            for i in 0..n {
                let lhs: f64 = (0..n).map(|j| square[i][j] * coef[j]).sum();
                let rhs: f64 = (0..rows).map(|r| bmat[r][i] * s.y[r]).sum();
                let sc: f64 = (0..n).map(|j| (square[i][j] * coef[j]).abs()).sum::<f64>() + rhs.abs();
                if !((lhs - rhs).abs() <= tol * sc + 1e-300) {
                    v.fail("least-squares coefficients do not satisfy the normal equations", format!("row {}: {:e} vs {:e}", i, lhs, rhs));
                    return v;
                }
            }
        }
        // evaluation points
        let xs: Vec<f64> = c.evals.iter().map(|e| resolve_x(t, e)).collect();
        let unit_cols: M = {
            // d s(x) / d y_j = sum_i b_i(x) [solve]_ij  with solve = inv (square) or inv * B^T (lsq)
            let solve: M = if s.lsq { (0..n).map(|i| (0..rows).map(|r| (0..n).map(|q| inv[i][q] * bmat[r][q]).sum()).collect()).collect() } else { inv.clone() };
            solve
        };
        for x in &xs {
            for m in 0..=k {
                let (exp, mag) = sref(*x, m);
                let got = match catch(|| sp.ppdnev_single(x, m)) {
                    Ok(Ok(g)) => g,
                    Ok(Err(_)) => {
                        v.fail("evaluating a solved spline returned an error", "".to_string());
                        return v;
                    }
                    Err(p) => {
                        v.fail(format!("ppdnev_single | panic | {}", p.site()), p.message);
                        return v;
                    }
                };
                if !((got - exp).abs() <= 1e-10 * (mag + cscale)) {
                    v.fail("spline evaluation differs from coefficients x reference basis", format!("k={} t={:?} x={:?} m={}: {:e} vs {:e}", k, t, x, m, got, exp));
                    return v;
                }
                if let (Some(pc), false) = (&s.poly, s.lsq) {
                    let (pv, pm) = poly_eval(pc, t[0], *x, m);
                    let dscale = (k as f64 / 0.25).powi(m as i32);
                    if !((got - pv).abs() <= tol * (pm + mag + cscale * dscale)) {
                        v.fail(
                            "spline of polynomial data does not reproduce the polynomial",
                            format!("k={} t={:?} tau={:?} end orders ({}, {}), x={:?}, derivative {}: spline {:e}, polynomial {:e} (cond {:.1e})", k, t, s.tau, s.left_n, s.right_n, x, m, got, pv, cond),
                        );
                        return v;
                    }
                }
            }
            // dual abscissae on the float spline: a plain variable, or a number that itself
            // depends on two variables with first- and second-order content (chain rule)
            let (an, c1, st): (Vec<String>, Vec<f64>, Vec<f64>) = match &c.abscissa {
                None => (vec!["x".to_string()], vec![1.0], vec![0.0]),
                Some(a) => (vec!["u".to_string(), "w".to_string()], vec![a[0].0, a[1].0], vec![a[2].0, a[3].0, a[3].0, a[4].0]),
            };
            v.label_if(c.abscissa.is_some(), "abscissa:composite");
            let na = an.len();
            for m in 0..k.min(3) {
                let xd = Dual::try_new(*x, an.clone(), c1.clone()).expect("abscissa");
                let xd2 = Dual2::try_new(*x, an.clone(), c1.clone(), st.clone()).expect("abscissa");
                let r = catch(|| (sp.ppdnev_single_dual(&xd, m), sp.ppdnev_single_dual2(&xd2, m)));
                let (r1, r2) = match r {
                    Ok((Ok(a), Ok(b))) => (a, b),
                    Ok(_) => {
                        v.fail("evaluating a float spline at a dual abscissa returned an error", "".to_string());
                        return v;
                    }
                    Err(p) => {
                        v.fail(format!("dual abscissa | panic | {}", p.site()), p.message);
                        return v;
                    }
                };
                let d = [sref(*x, m), sref(*x, m + 1), sref(*x, m + 2)];
                let g1 = r1.gradient1(an.clone());
                let g2 = r2.gradient1(an.clone());
                let h2 = r2.gradient2(an.clone());
                let cmax = c1.iter().chain(st.iter()).fold(1.0f64, |a, b| a.max(b.abs()));
                let mut ok = (r1.real() - d[0].0).abs() <= 1e-10 * (d[0].1 + cscale) && (r2.real() - d[0].0).abs() <= 1e-10 * (d[0].1 + cscale);
                for i in 0..na {
                    let eg = d[1].0 * c1[i];
                    ok &= (g1[i] - eg).abs() <= 1e-10 * (d[1].1 + cscale) * cmax && (g2[i] - eg).abs() <= 1e-10 * (d[1].1 + cscale) * cmax;
                    for j in 0..na {
                        // d2/dvdw s(x(v,w)) = s'' x_v x_w + s' x_vw, with x_vw = 2 x storage
                        let eh = d[2].0 * c1[i] * c1[j] + d[1].0 * 2.0 * st[i * na + j];
                        ok &= (h2[[i, j]] - eh).abs() <= 1e-10 * (d[2].1 + d[1].1 + cscale) * cmax * cmax;
                    }
                }
                // the same law one level down: each basis function evaluated at the dual abscissa
                // through the four public entry points
                for i in 0..n {
                    let b = [reference[i].eval(t, *x, m), reference[i].eval(t, *x, m + 1), reference[i].eval(t, *x, m + 2)];
                    let bs = b[0].1 + b[1].1 + b[2].1 + 1.0;
                    let (e1, e2) = match catch(|| {
                        let e1 = if m == 0 { bsplev_single_dual(&xd, i, &k, t, None) } else { bspldnev_single_dual(&xd, i, &k, t, m, None) };
                        let e2 = if m == 0 { bsplev_single_dual2(&xd2, i, &k, t, None) } else { bspldnev_single_dual2(&xd2, i, &k, t, m, None) };
                        (e1, e2)
                    }) {
                        Ok(e) => e,
                        Err(p) => {
                            v.fail(format!("basis function at a dual abscissa | panic | {}", p.site()), p.message);
                            return v;
                        }
                    };
                    let (bg1, bg2, bh2) = (e1.gradient1(an.clone()), e2.gradient1(an.clone()), e2.gradient2(an.clone()));
                    let mut bok = (e1.real() - b[0].0).abs() <= 1e-10 * bs && (e2.real() - b[0].0).abs() <= 1e-10 * bs;
                    for p in 0..na {
                        bok &= (bg1[p] - b[1].0 * c1[p]).abs() <= 1e-10 * bs * cmax && (bg2[p] - b[1].0 * c1[p]).abs() <= 1e-10 * bs * cmax;
                        for q in 0..na {
                            let eh = b[2].0 * c1[p] * c1[q] + b[1].0 * 2.0 * st[p * na + q];
                            bok &= (bh2[[p, q]] - eh).abs() <= 1e-10 * bs * cmax * cmax;
                        }
                    }
                    if !bok {
                        v.fail(
                            "basis function at a dual abscissa does not carry its own derivatives as sensitivities",
                            format!("k={} t={:?} i={} m={} x={:?} abscissa content {:?}/{:?}: Dual ({:e}, {:?}), Dual2 ({:e}, {:?}, {:?}); B^(m)={:e} B^(m+1)={:e} B^(m+2)={:e}", k, t, i, m, x, c1, st, e1.real(), bg1.to_vec(), e2.real(), bg2.to_vec(), bh2.iter().collect::<Vec<_>>(), b[0].0, b[1].0, b[2].0),
                        );
                        return v;
                    }
                }
                if !ok {
                    v.fail(
                        "dual abscissa does not return the spline's own derivatives as sensitivities",
                        format!(
                            "k={} x={:?} m={} abscissa content {:?}/{:?}: Dual ({:e}, {:?}), Dual2 ({:e}, {:?}, {:?}); spline derivatives s^(m)={:e}, s^(m+1)={:e}, s^(m+2)={:e}",
                            k, x, m, c1, st, r1.real(), g1.to_vec(), r2.real(), g2.to_vec(), h2.iter().collect::<Vec<_>>(), d[0].0, d[1].0, d[2].0
                        ),
                    );
                    return v;
                }
            }
        }
        v.label("cell:f64-spline");

        // ---------------- dual data
        let names: Vec<String> = (0..rows).map(|j| format!("y{}", j)).collect();
        let kind = c.data_kind % 3;
        let check_sens = |v: &mut Verdict, x: f64, m: usize, value: f64, grad: &[f64], hess_max: f64, what: &str| -> bool {
            let (exp, mag) = sref(x, m);
            if !((value - exp).abs() <= 1e-9 * cond * (mag + cscale)) {
                v.fail(format!("{} | value differs from the float spline", what), format!("x={:?} m={}: {:e} vs {:e}", x, m, value, exp));
                return false;
            }
            for j in 0..rows {
                let e: f64 = (0..n).map(|i| reference[i].eval(t, x, m).0 * unit_cols[i][j]).sum();
                let sc: f64 = (0..n).map(|i| (reference[i].eval(t, x, m).0 * unit_cols[i][j]).abs()).sum::<f64>() + 1.0;
                if !((grad[j] - e).abs() <= 1e-9 * cond * sc) {
                    v.fail(format!("{} | sensitivity to a datum is not the spline of the unit data", what), format!("x={:?} d/dy{}: {:e} vs {:e} (cond {:.1e})", x, j, grad[j], e, cond));
                    return false;
                }
            }
            if hess_max != 0.0 && !(hess_max.abs() <= 1e-9 * cond * (cscale + 1.0)) {
                v.fail(format!("{} | second-order sensitivity to data is not zero", what), format!("{:e}", hess_max));
                return false;
            }
            true
        };
        if kind == 1 {
            v.label("cell:Dual-spline");
            let yd: Vec<Dual> = (0..rows).map(|j| Dual::new(s.y[j], vec![names[j].clone()])).collect();
            let mut spd = PPSpline::<Dual>::new(k, t.clone(), None);
            match catch(|| spd.csolve(&s.tau, &yd, s.left_n, s.right_n, s.lsq)) {
                Ok(Ok(())) => {}
                Ok(Err(_)) => {
                    v.fail("csolve with first-order data rejected an admissible site set", "".to_string());
                    return v;
                }
                Err(p) => {
                    v.fail(format!("csolve<Dual> | panic | {}", p.site()), p.message);
                    return v;
                }
            }
            for x in &xs {
                let r = catch(|| {
                    let a = spd.ppdnev_single(x, 0);
                    let b = spd.ppdnev_single_dual(&Dual::new(*x, vec!["x".to_string()]), 0);
                    let refuse = spd.ppdnev_single_dual2(&Dual2::new(*x, vec!["x".to_string()]), 0).is_err();
                    let mv = (spd.mapped_value(&Number::F64(*x)), spd.mapped_value(&Number::Dual(Dual::new(*x, vec!["x".to_string()]))), spd.mapped_value(&Number::Dual2(Dual2::new(*x, vec![]))).is_err());
                    (a, b, refuse, mv)
                });
                match r {
                    Ok((Ok(a), Ok(b), true, (Ok(Number::Dual(m0)), Ok(Number::Dual(m1)), true))) => {
                        if !check_sens(&mut v, *x, 0, a.real(), &a.gradient1(names.clone()).to_vec(), 0.0, "first-order data") {
                            return v;
                        }
                        if !check_sens(&mut v, *x, 0, b.real(), &b.gradient1(names.clone()).to_vec(), 0.0, "first-order data, dual abscissa") {
                            return v;
                        }
                        let (d1, dm) = sref(*x, 1);
                        let gx = b.gradient1(vec!["x".to_string()])[0];
                        if !((gx - d1).abs() <= 1e-9 * cond * (dm + cscale)) {
                            v.fail("first-order data, dual abscissa | sensitivity to x is not the spline's derivative", format!("{:e} vs {:e}", gx, d1));
                            return v;
                        }
                        if m0.real().to_bits() != a.real().to_bits() || m1.real().to_bits() != b.real().to_bits() {
                            v.fail("mapped_value differs from direct evaluation", "Dual spline".to_string());
                            return v;
                        }
                        // first derivative of the spline at a dual abscissa: value s', data sensitivities
                        // the unit-data splines' derivatives, abscissa sensitivity s''
                        if k >= 2 {
                            match catch(|| spd.ppdnev_single_dual(&Dual::new(*x, vec!["x".to_string()]), 1)) {
                                Ok(Ok(b1)) => {
                                    if !check_sens(&mut v, *x, 1, b1.real(), &b1.gradient1(names.clone()).to_vec(), 0.0, "first-order data, dual abscissa, first derivative") {
                                        return v;
                                    }
                                    let (d2v, d2m) = sref(*x, 2);
                                    let gx = b1.gradient1(vec!["x".to_string()])[0];
                                    if !((gx - d2v).abs() <= 1e-9 * cond * (d2m + cscale)) {
                                        v.fail("first-order data, dual abscissa, first derivative | sensitivity to x is not the spline's second derivative", format!("x={:?}: {:e} vs {:e}", x, gx, d2v));
                                        return v;
                                    }
                                }
                                Ok(Err(_)) => {
                                    v.fail("first-order spline | derivative evaluation at a dual abscissa refused", "".to_string());
                                    return v;
                                }
                                Err(p) => {
                                    v.fail(format!("first-order spline evaluation | panic | {}", p.site()), p.message);
                                    return v;
                                }
                            }
                        }
                    }
                    Ok(other) => {
                        v.fail("first-order spline | evaluation table (float ok, Dual ok, Dual2 refused) not respected", format!("{:?}", (other.0.is_ok(), other.1.is_ok(), other.2)));
                        return v;
                    }
                    Err(p) => {
                        v.fail(format!("first-order spline evaluation | panic | {}", p.site()), p.message);
                        return v;
                    }
                }
            }
        } else if kind == 2 {
            v.label("cell:Dual2-spline");
            let yd: Vec<Dual2> = (0..rows).map(|j| Dual2::new(s.y[j], vec![names[j].clone()])).collect();
            let mut spd = PPSpline::<Dual2>::new(k, t.clone(), None);
            match catch(|| spd.csolve(&s.tau, &yd, s.left_n, s.right_n, s.lsq)) {
                Ok(Ok(())) => {}
                Ok(Err(_)) => {
                    v.fail("csolve with second-order data rejected an admissible site set", "".to_string());
                    return v;
                }
                Err(p) => {
                    v.fail(format!("csolve<Dual2> | panic | {}", p.site()), p.message);
                    return v;
                }
            }
            for x in &xs {
                let r = catch(|| {
                    let a = spd.ppdnev_single(x, 0);
                    let b = spd.ppdnev_single_dual2(&Dual2::new(*x, vec!["x".to_string()]), 0);
                    let refuse = spd.ppdnev_single_dual(&Dual::new(*x, vec!["x".to_string()]), 0).is_err();
                    let mv = (spd.mapped_value(&Number::F64(*x)), spd.mapped_value(&Number::Dual2(Dual2::new(*x, vec!["x".to_string()]))), spd.mapped_value(&Number::Dual(Dual::new(*x, vec![]))).is_err());
                    (a, b, refuse, mv)
                });
                match r {
                    Ok((Ok(a), Ok(b), true, (Ok(Number::Dual2(m0)), Ok(Number::Dual2(m1)), true))) => {
                        let hmax = |d: &Dual2| d.gradient2(names.clone()).iter().fold(0.0f64, |m, x| if x.is_nan() || x.abs() > m.abs() { *x } else { m });
                        if !check_sens(&mut v, *x, 0, a.real(), &a.gradient1(names.clone()).to_vec(), hmax(&a), "second-order data") {
                            return v;
                        }
                        if !check_sens(&mut v, *x, 0, b.real(), &b.gradient1(names.clone()).to_vec(), hmax(&b), "second-order data, dual abscissa") {
                            return v;
                        }
                        let (d2v, d2m) = sref(*x, 2);
                        let hx = b.gradient2(vec!["x".to_string()])[[0, 0]];
                        if !((hx - d2v).abs() <= 1e-9 * cond * (d2m + cscale)) {
                            v.fail("second-order data, dual abscissa | second sensitivity to x is not the spline's second derivative", format!("{:e} vs {:e}", hx, d2v));
                            return v;
                        }
                        if m0.real().to_bits() != a.real().to_bits() || m1.real().to_bits() != b.real().to_bits() {
                            v.fail("mapped_value differs from direct evaluation", "Dual2 spline".to_string());
                            return v;
                        }
                        // first sensitivity to x and the mixed (x, datum) terms: the derivative of the
                        // spline and of each unit-data spline
                        let (d1v, d1m) = sref(*x, 1);
                        let gx = b.gradient1(vec!["x".to_string()])[0];
                        if !((gx - d1v).abs() <= 1e-9 * cond * (d1m + cscale)) {
                            v.fail("second-order data, dual abscissa | sensitivity to x is not the spline's derivative", format!("x={:?}: {:e} vs {:e}", x, gx, d1v));
                            return v;
                        }
                        let mut xn = vec!["x".to_string()];
                        xn.extend(names.iter().cloned());
                        let hm = b.gradient2(xn);
                        for j in 0..rows {
                            let e: f64 = (0..n).map(|i| reference[i].eval(t, *x, 1).0 * unit_cols[i][j]).sum();
                            let sc: f64 = (0..n).map(|i| (reference[i].eval(t, *x, 1).0 * unit_cols[i][j]).abs()).sum::<f64>() + 1.0;
                            if !((hm[[0, j + 1]] - e).abs() <= 1e-9 * cond * sc) || !((hm[[j + 1, 0]] - e).abs() <= 1e-9 * cond * sc) {
                                v.fail("second-order data, dual abscissa | mixed sensitivity (x, datum) is not the derivative of the unit-data spline", format!("x={:?} datum {}: {:e} / {:e} vs {:e}", x, j, hm[[0, j + 1]], hm[[j + 1, 0]], e));
                                return v;
                            }
                        }
                        if k >= 2 {
                            match catch(|| spd.ppdnev_single_dual2(&Dual2::new(*x, vec!["x".to_string()]), 1)) {
                                Ok(Ok(b1)) => {
                                    if !check_sens(&mut v, *x, 1, b1.real(), &b1.gradient1(names.clone()).to_vec(), hmax(&b1), "second-order data, dual abscissa, first derivative") {
                                        return v;
                                    }
                                    let (d2v, d2m) = sref(*x, 2);
                                    let gx1 = b1.gradient1(vec!["x".to_string()])[0];
                                    if !((gx1 - d2v).abs() <= 1e-9 * cond * (d2m + cscale)) {
                                        v.fail("second-order data, dual abscissa, first derivative | sensitivity to x is not the spline's second derivative", format!("x={:?}: {:e} vs {:e}", x, gx1, d2v));
                                        return v;
                                    }
                                }
                                Ok(Err(_)) => {
                                    v.fail("second-order spline | derivative evaluation at a dual abscissa refused", "".to_string());
                                    return v;
                                }
                                Err(p) => {
                                    v.fail(format!("second-order spline evaluation | panic | {}", p.site()), p.message);
                                    return v;
                                }
                            }
                        }
                    }
                    Ok(other) => {
                        v.fail("second-order spline | evaluation table (float ok, Dual2 ok, Dual refused) not respected", format!("{:?}", (other.0.is_ok(), other.1.is_ok(), other.2)));
                        return v;
                    }
                    Err(p) => {
                        v.fail(format!("second-order spline evaluation | panic | {}", p.site()), p.message);
                        return v;
                    }
                }
            }
        } else {
            // float spline: mapped_value over the three abscissa kinds, and the unit-data law
            // through the library itself
            for x in &xs {
                match catch(|| (sp.mapped_value(&Number::F64(*x)), sp.mapped_value(&Number::Dual(Dual::new(*x, vec!["x".to_string()]))), sp.mapped_value(&Number::Dual2(Dual2::new(*x, vec!["x".to_string()]))))) {
                    Ok((Ok(Number::F64(a)), Ok(Number::Dual(b)), Ok(Number::Dual2(d)))) => {
                        let direct = sp.ppdnev_single(x, 0).unwrap_or(f64::NAN);
                        // (the dual paths may return +0 where the float path returns -0: equal as numbers)
                        if a.to_bits() != direct.to_bits() || !(b.real() == direct || (b.real().is_nan() && direct.is_nan())) || !(d.real() == direct || (d.real().is_nan() && direct.is_nan())) {
                            v.fail("mapped_value differs from direct evaluation", format!("float spline at {:?}: {:e} {:e} {:e} vs {:e}", x, a, b.real(), d.real(), direct));
                            return v;
                        }
                    }
                    Ok(_) => {
                        v.fail("float spline | mapped_value must accept all three abscissa kinds and return the matching kind", "".to_string());
                        return v;
                    }
                    Err(p) => {
                        v.fail(format!("mapped_value | panic | {}", p.site()), p.message);
                        return v;
                    }
                }
            }
            if !s.lsq && rows <= 12 {
                let j = (c.lsq_extra as usize + rows / 2) % rows;
                let mut e = vec![0.0; rows];
                e[j] = 1.0;
                let mut unit = PPSpline::<f64>::new(k, t.clone(), None);
                if let Ok(Ok(())) = catch(|| unit.csolve(&s.tau, &e, s.left_n, s.right_n, false)) {
                    for x in &xs {
                        let lib = unit.ppdnev_single(x, 0).unwrap_or(f64::NAN);
                        let exp: f64 = (0..n).map(|i| reference[i].eval(t, *x, 0).0 * unit_cols[i][j]).sum();
                        if !((lib - exp).abs() <= 1e-9 * cond) {
                            v.fail("spline solved on unit data differs from the reference", format!("unit datum {}: {:e} vs {:e}", j, lib, exp));
                            return v;
                        }
                    }
                }
            }
        }
        v
    }

    fn plan(&self, tier: Tier) -> Vec<Stage<Case>> {
        vec![
            Stage::random("random", tier.pick(120_000, 4_000_000), case_strategy),
            Stage::random("long-knot-sequences", tier.pick(400, 20_000), || (case_strategy(), any::<u16>()).prop_map(|(mut c, e)| {
                c.long_eval = Some(e);
                c
            })),
        ]
    }

    fn rule(&self) -> String {
        "random (order 2-6, knot sequence as in C14, site layout: Greville sites with end rows of derivative order 0-2, or for order 4 with distinct interior knots the callers' natural / clamped layout [a,a,interior knots,b,b] with second / first derivative end conditions; data: random floats or samples of a random polynomial of degree < k with matching end-derivative values; data kind float / first-order / second-order with datum j tagged y{j}; optional 1-6 extra sites solved by least squares; 1-4 evaluation points as in C14). Site sets are admissible by construction; draws whose collocation matrix has cond >= 1e8 (own estimate) are skipped and counted. Oracle: coefficients x reference basis (C14 model) reproduce every data row and end condition; an object solved before on other data (and through a failed call) ends with bit-identical coefficients; in a third of the draws the interior data sites are listed in another order (rotated / reversed) and must give the same coefficients; in 40% of draws the problem is solved again on a domain multiplied by 2^-70..-30 or 2^20..40 (knots and sites scaled, derivative data divided by the matching power) and must give the same coefficients and the rescaled evaluations (on huge domains with derivative end rows only: data rows reproduced, natural / clamped end conditions met to 5% of their own terms - partial pivoting is not row-scaling invariant); polynomial data are reproduced with all derivatives m <= k everywhere; library evaluation == coefficients x reference basis; dual abscissae (plain tagged and composite) return s', s'' as sensitivities, for the spline and for every basis function through the four public dual basis entry points; splines with dual data evaluated at a dual abscissa (m = 0 and m = 1) carry d/dx = next derivative, d/dy_j = unit-data spline (its derivative for m = 1) and, at second order, the mixed (x, y_j) terms; for dual data d s(x)/d y_j == row of the independently inverted collocation matrix (and the library's own unit-data spline), zero Hessian; the 3x3 spline-kind x abscissa-kind table (mapped_value and direct) returns matching kinds and refuses first/second-order mixes; unsolved evaluation, wrong site counts and y/tau length mismatches are errors. A second stage evaluates splines with given coefficients on long knot sequences (270-390 knots, simple and repeated) at the first knot, at knots of every multiplicity, inside spans and at the right end, for every derivative order, against coefficients x basis functions. Non-trivial: k >= 3, >= 1 interior knot, and non-polynomial or dual data.".into()
    }

    fn floors(&self, tier: Tier) -> Vec<Floor> {
        let n = tier.pick(120_000u64, 4_000_000);
        vec![
            Floor { label: "layout:natural", min: n / 10 },
            Floor { label: "layout:clamped", min: n / 10 },
            Floor { label: "layout:greville-end-derivatives", min: n / 10 },
            Floor { label: "cell:f64-spline", min: n / 2 },
            Floor { label: "cell:Dual-spline", min: n / 5 },
            Floor { label: "cell:Dual2-spline", min: n / 5 },
            Floor { label: "data:polynomial", min: n / 5 },
            Floor { label: "least-squares", min: n / 20 },
            Floor { label: "domain:rescaled-tiny", min: n / 20 },
            Floor { label: "sites:unsorted", min: n / 10 },
            Floor { label: "long-knot-sequence:evaluation", min: n / 500 },
            Floor { label: "domain:rescaled-huge", min: n / 20 },
            Floor { label: "abscissa:composite", min: n / 2 },
        ]
    }

    fn assumptions(&self) -> Vec<String> {
        vec![
            "sites are admissible by construction (Greville abscissae / the callers' natural layout); singular site sets are a C20 matter".into(),
            "tolerances 1e-9 x cond x scale with cond estimated from the reference collocation matrix".into(),
        ]
    }
}
