//! C18 - Changing derivative order or mixing number kinds never alters values.

use crate::engine::*;
use crate::props::adcommon::NAMES;
use crate::props::numgen::*;
use crate::util::*;
use num_traits::{One, Pow, Signed, Zero};
use proptest::prelude::*;
use rateslib::dual::{set_order, set_order_clone, ADOrder, Dual, Dual2, Gradient1, Gradient2, MathFuncs, Number, Vars};
use serde::{Deserialize, Serialize};
use std::cmp::Ordering;

#[derive(Clone, Debug, Serialize, Deserialize)]
pub struct Case {
    pub a: NumSpec,
    pub b: NumSpec,
    /// bare float operand for the float-left / float-right forms
    pub f: Fl,
    /// names offered when lifting a float (duplicates allowed)
    pub lift: Vec<u8>,
    pub power: Fl,
    /// extra numbers for the sum
    pub more: Vec<NumSpec>,
}

pub struct C18;

fn order_of(t: u8) -> ADOrder {
    match t % 3 {
        0 => ADOrder::Zero,
        1 => ADOrder::One,
        _ => ADOrder::Two,
    }
}

/// model of a conversion, from the table in the property
fn model_convert(x: &NumSpec, target: u8, lift: &[String]) -> Number {
    let mut dedup: Vec<String> = Vec::new();
    for n in lift {
        if !dedup.contains(n) {
            dedup.push(n.clone());
        }
    }
    match (x.kind % 3, target % 3) {
        (_, 0) => Number::F64(x.real.0),
        (0, 1) => Number::Dual(Dual::try_new(x.real.0, dedup.clone(), vec![1.0; dedup.len()]).unwrap_or_else(|_| Dual::new(x.real.0, vec![]))),
        (0, _) => Number::Dual2(Dual2::try_new(x.real.0, dedup.clone(), vec![1.0; dedup.len()], vec![0.0; dedup.len() * dedup.len()]).unwrap_or_else(|_| Dual2::new(x.real.0, vec![]))),
        (1, 1) => Number::Dual(x.dual()),
        (1, _) => {
            // raise: same names and first derivatives, zero Hessian
            let n = x.n();
            Number::Dual2(if n == 0 { Dual2::new(x.real.0, vec![]) } else { Dual2::try_new(x.real.0, x.names(), x.d1v(), vec![0.0; n * n]).unwrap() })
        }
        (_, 1) => Number::Dual(x.dual()), // lower: drop the Hessian only
        (_, _) => Number::Dual2(x.dual2()),
    }
}

#[derive(Clone, Copy, Debug, PartialEq)]
enum Bin {
    Add,
    Sub,
    Mul,
    Div,
    Rem,
}
const BINS: [(Bin, &str); 5] = [(Bin::Add, "add"), (Bin::Sub, "sub"), (Bin::Mul, "mul"), (Bin::Div, "div"), (Bin::Rem, "rem")];

macro_rules! contained {
    ($op:expr, $x:expr, $y:expr) => {
        match $op {
            Bin::Add => $x + $y,
            Bin::Sub => $x - $y,
            Bin::Mul => $x * $y,
            Bin::Div => $x / $y,
            Bin::Rem => $x % $y,
        }
    };
}

/// the same arithmetic on the contained types; None where kinds must not be combined
fn contained_bin(op: Bin, a: &Number, b: &Number) -> Option<Number> {
    Some(match (a, b) {
        (Number::F64(x), Number::F64(y)) => Number::F64(contained!(op, *x, *y)),
        (Number::F64(x), Number::Dual(y)) => Number::Dual(contained!(op, *x, y)),
        (Number::F64(x), Number::Dual2(y)) => Number::Dual2(contained!(op, *x, y)),
        (Number::Dual(x), Number::F64(y)) => Number::Dual(contained!(op, x, *y)),
        (Number::Dual(x), Number::Dual(y)) => Number::Dual(contained!(op, x, y)),
        (Number::Dual2(x), Number::F64(y)) => Number::Dual2(contained!(op, x, *y)),
        (Number::Dual2(x), Number::Dual2(y)) => Number::Dual2(contained!(op, x, y)),
        (Number::Dual(_), Number::Dual2(_)) | (Number::Dual2(_), Number::Dual(_)) => return None,
    })
}

fn container_bin(op: Bin, a: &Number, b: &Number, owned: bool) -> Number {
    if owned {
        contained!(op, a.clone(), b.clone())
    } else {
        contained!(op, a, b)
    }
}

fn contained_eq(a: &Number, b: &Number) -> Option<bool> {
    Some(match (a, b) {
        (Number::F64(x), Number::F64(y)) => x == y,
        (Number::F64(x), Number::Dual(y)) => x == y,
        (Number::F64(x), Number::Dual2(y)) => x == y,
        (Number::Dual(x), Number::F64(y)) => x == y,
        (Number::Dual(x), Number::Dual(y)) => x == y,
        (Number::Dual2(x), Number::F64(y)) => x == y,
        (Number::Dual2(x), Number::Dual2(y)) => x == y,
        _ => return None,
    })
}

fn contained_cmp(a: &Number, b: &Number) -> Option<Option<Ordering>> {
    Some(match (a, b) {
        (Number::F64(x), Number::F64(y)) => x.partial_cmp(y),
        (Number::F64(x), Number::Dual(y)) => x.partial_cmp(y),
        (Number::F64(x), Number::Dual2(y)) => x.partial_cmp(y),
        (Number::Dual(x), Number::F64(y)) => x.partial_cmp(y),
        (Number::Dual(x), Number::Dual(y)) => x.partial_cmp(y),
        (Number::Dual2(x), Number::F64(y)) => x.partial_cmp(y),
        (Number::Dual2(x), Number::Dual2(y)) => x.partial_cmp(y),
        _ => return None,
    })
}

fn unary_contained(name: &str, x: &Number, p: f64) -> Number {
    macro_rules! un {
        ($f:expr, $d:expr, $d2:expr) => {
            match x {
                Number::F64(v) => Number::F64($f(v)),
                Number::Dual(v) => Number::Dual($d(v)),
                Number::Dual2(v) => Number::Dual2($d2(v)),
            }
        };
    }
    match name {
        "neg" => un!(|v: &f64| -*v, |v: &Dual| -v, |v: &Dual2| -v),
        "abs" => un!(|v: &f64| v.abs(), |v: &Dual| Signed::abs(v), |v: &Dual2| Signed::abs(v)),
        "exp" => un!(|v: &f64| MathFuncs::exp(v), |v: &Dual| v.exp(), |v: &Dual2| v.exp()),
        "log" => un!(|v: &f64| MathFuncs::log(v), |v: &Dual| v.log(), |v: &Dual2| v.log()),
        "norm_cdf" => un!(|v: &f64| MathFuncs::norm_cdf(v), |v: &Dual| v.norm_cdf(), |v: &Dual2| v.norm_cdf()),
        "inv_norm_cdf" => un!(|v: &f64| MathFuncs::inv_norm_cdf(v), |v: &Dual| v.inv_norm_cdf(), |v: &Dual2| v.inv_norm_cdf()),
        "pow" => un!(|v: &f64| v.powf(p), |v: &Dual| v.pow(p), |v: &Dual2| v.pow(p)),
        "signum" => un!(|v: &f64| v.signum(), |v: &Dual| Signed::signum(v), |v: &Dual2| Signed::signum(v)),
        _ => unreachable!(),
    }
}

fn unary_container(name: &str, x: &Number, p: f64) -> Number {
    match name {
        "neg" => -x,
        "abs" => Signed::abs(x),
        "exp" => x.exp(),
        "log" => x.log(),
        "norm_cdf" => x.norm_cdf(),
        "inv_norm_cdf" => x.inv_norm_cdf(),
        "pow" => x.pow(p),
        "signum" => Signed::signum(x),
        _ => unreachable!(),
    }
}

impl Property for C18 {
    type Case = Case;
    fn id(&self) -> &'static str {
        "C18"
    }

    fn check(&self, c: &Case) -> Verdict {
        let mut v = Verdict::new();
        let (na, nb) = (c.a.number(), c.b.number());
        let lift: Vec<String> = c.lift.iter().map(|i| NAMES[*i as usize % 8].to_string()).collect();
        v.nt(c.a.kind % 3 != c.b.kind % 3);
        v.label(intern(format!("kinds:{}.{}", kind_name(&na), kind_name(&nb))));
        v.label_if(lift.iter().enumerate().any(|(i, n)| lift[..i].contains(n)), "lift:duplicate-names");

        // ---- conversions: every source kind x every target order, both entry points
        for x in [&c.a, &c.b] {
            let src = x.number();
            for t in 0..3u8 {
                let exp = model_convert(x, t, &lift);
                v.label(intern(format!("convert:{}->{}", kind_name(&src), t)));
                let got = catch(|| (set_order(src.clone(), order_of(t), lift.clone()), set_order_clone(&src, order_of(t), lift.clone())));
                let (g1, g2) = match got {
                    Ok(g) => g,
                    Err(p) => {
                        v.fail(format!("set_order | panic | {}", p.site()), p.message);
                        return v;
                    }
                };
                for (name, g) in [("set_order", &g1), ("set_order_clone", &g2)] {
                    if !same_number(g, &exp) {
                        v.fail(
                            format!("{} | {} -> order {} does not follow the conversion table", name, kind_name(&src), t),
                            format!("source {}, names {:?}: got {}, expected {}", show(&src), lift, show(g), show(&exp)),
                        );
                        return v;
                    }
                }
            }
            // From impls agree with the table (no names available: floats lift to variable-free numbers)
            let as_dual = model_convert(x, 1, &[]);
            let as_dual2 = model_convert(x, 2, &[]);
            let checks = catch(|| {
                (
                    Number::Dual(Dual::from(src.clone())),
                    Number::Dual(Dual::from(&src)),
                    Number::Dual2(Dual2::from(src.clone())),
                    Number::Dual2(Dual2::from(&src)),
                    f64::from(src.clone()),
                    f64::from(&src),
                )
            });
            match checks {
                Ok((d_o, d_r, d2_o, d2_r, f_o, f_r)) => {
                    if !same_number(&d_o, &as_dual) || !same_number(&d_r, &as_dual) || !same_number(&d2_o, &as_dual2) || !same_number(&d2_r, &as_dual2) || f_o.to_bits() != x.real.0.to_bits() || f_r.to_bits() != x.real.0.to_bits() {
                        v.fail(
                            format!("From<Number> | {} does not follow the conversion table", kind_name(&src)),
                            format!("source {}: Dual::from {} / {}, Dual2::from {} / {}, f64::from {:e} / {:e}", show(&src), show(&d_o), show(&d_r), show(&d2_o), show(&d2_r), f_o, f_r),
                        );
                        return v;
                    }
                }
                Err(p) => {
                    v.fail(format!("From<Number> | panic | {}", p.site()), p.message);
                    return v;
                }
            }
        }
        // direct From between the contained types
        {
            let d = c.a.dual();
            let d2 = c.a.dual2();
            let up = Number::Dual2(Dual2::from(d.clone()));
            let up_r = Number::Dual2(Dual2::from(&d));
            let down = Number::Dual(Dual::from(d2.clone()));
            let down_r = Number::Dual(Dual::from(&d2));
            let exp_up = model_convert(&c.a.with_kind(1), 2, &[]);
            let exp_down = model_convert(&c.a.with_kind(2), 1, &[]);
            if !same_number(&up, &exp_up) || !same_number(&up_r, &exp_up) || !same_number(&down, &exp_down) || !same_number(&down_r, &exp_down) {
                v.fail("From between Dual and Dual2 | does not follow the conversion table", format!("up {} / {}, down {} / {}", show(&up), show(&up_r), show(&down), show(&down_r)));
                return v;
            }
            let (fd, fd2) = (Number::Dual(Dual::from(c.f.0)), Number::Dual2(Dual2::from(c.f.0)));
            if !same_number(&fd, &Number::Dual(Dual::new(c.f.0, vec![]))) || !same_number(&fd2, &Number::Dual2(Dual2::new(c.f.0, vec![]))) || f64::from(d.clone()).to_bits() != c.a.real.0.to_bits() || f64::from(&d2).to_bits() != c.a.real.0.to_bits() {
                v.fail("From<f64> / Into<f64> | does not follow the conversion table", format!("{} {}", show(&fd), show(&fd2)));
                return v;
            }
        }

        // ---- container arithmetic == contained arithmetic, all pairings; mixes refused
        let mixed = contained_bin(Bin::Add, &na, &nb).is_none();
        v.label_if(mixed, "pairing:first-with-second-order");
        for (op, opname) in BINS {
            for owned in [false, true] {
                let got = catch(|| container_bin(op, &na, &nb, owned));
                match (contained_bin(op, &na, &nb), got) {
                    (Some(exp), Ok(g)) => {
                        v.label(intern(format!("table:{}:{}.{}", opname, kind_name(&na), kind_name(&nb))));
                        if !same_number(&g, &exp) {
                            v.fail(
                                format!("container {} | {}.{} differs from the contained types", opname, kind_name(&na), kind_name(&nb)),
                                format!("{} {} {}: container {}, contained types {}", show(&na), opname, show(&nb), show(&g), show(&exp)),
                            );
                            return v;
                        }
                    }
                    (None, Err(_)) => {
                        v.label(intern(format!("refused:{}:{}.{}", opname, kind_name(&na), kind_name(&nb))));
                    }
                    (None, Ok(g)) => {
                        v.fail(
                            format!("container {} | first-order with second-order was computed, not refused", opname),
                            format!("{} {} {} returned {}", show(&na), opname, show(&nb), show(&g)),
                        );
                        return v;
                    }
                    (Some(_), Err(p)) => {
                        v.fail(format!("container {} | panic on a valid pairing | {}", opname, p.site()), p.message);
                        return v;
                    }
                }
            }
            // the same object on both sides (&n op &n) must equal the operation on two separate
            // copies of it
            for owned in [false, true] {
                match catch(|| (container_bin(op, &na, &na, owned), container_bin(op, &na, &na.clone(), owned))) {
                    Ok((same_obj, copies)) => {
                        if !same_number(&same_obj, &copies) {
                            v.fail(
                                format!("container {} | an operand combined with itself differs from two copies of it", opname),
                                format!("{} {} itself: {} vs {} with a clone", show(&na), opname, show(&same_obj), show(&copies)),
                            );
                            return v;
                        }
                    }
                    Err(p) => {
                        v.fail(format!("container {} | panic on a valid pairing | {}", opname, p.site()), p.message);
                        return v;
                    }
                }
            }
            // a first-order number against the second-order number DERIVED from it (and the other way
            // round): the two share one variable-list allocation, which must not make the pairing
            // acceptable
            {
                let d = c.a.dual();
                let d2 = c.a.dual2();
                let pairs = [
                    (Number::Dual(d.clone()), Number::Dual2(Dual2::from(&d)), "Dual with its own Dual2::from(&d)"),
                    (Number::Dual2(Dual2::from(&d)), Number::Dual(d.clone()), "Dual2::from(&d) with d"),
                    (Number::Dual2(d2.clone()), Number::Dual(Dual::from(&d2)), "Dual2 with its own Dual::from(&d2)"),
                    (set_order_clone(&Number::Dual(d.clone()), ADOrder::Two, vec![]), Number::Dual(d.clone()), "set_order_clone(d, Two) with d"),
                ];
                for (x, y, what) in pairs {
                    for owned in [false, true] {
                        if let Ok(g) = catch(|| container_bin(op, &x, &y, owned)) {
                            v.fail(
                                format!("container {} | first-order with second-order was computed, not refused", opname),
                                format!("derived operands sharing their variable list ({}): {} {} {} returned {}", what, show(&x), opname, show(&y), show(&g)),
                            );
                            return v;
                        }
                    }
                }
                v.label("refused:derived-operands-sharing-storage");
            }
            // float on the right and on the left
            let f = c.f.0;
            let exp_r = contained_bin(op, &na, &Number::F64(f)).unwrap();
            let exp_l = contained_bin(op, &Number::F64(f), &na).unwrap();
            match catch(|| {
                let r1 = contained!(op, &na, &f);
                let r2 = contained!(op, na.clone(), f);
                let l1 = contained!(op, &f, &na);
                let l2 = contained!(op, f, na.clone());
                (r1, r2, l1, l2)
            }) {
                Ok((r1, r2, l1, l2)) => {
                    v.label(intern(format!("table:{}:{}.float", opname, kind_name(&na))));
                    if !same_number(&r1, &exp_r) || !same_number(&r2, &exp_r) {
                        v.fail(format!("container {} | {}.float differs from the contained types", opname, kind_name(&na)), format!("{} {} {:e}: container {}, contained {}", show(&na), opname, f, show(&r1), show(&exp_r)));
                        return v;
                    }
                    if !same_number(&l1, &exp_l) || !same_number(&l2, &exp_l) {
                        v.fail(format!("container {} | float.{} differs from the contained types", opname, kind_name(&na)), format!("{:e} {} {}: container {}, contained {}", f, opname, show(&na), show(&l1), show(&exp_l)));
                        return v;
                    }
                }
                Err(p) => {
                    v.fail(format!("container {} with float | panic | {}", opname, p.site()), p.message);
                    return v;
                }
            }
        }
        // equality and ordering
        match (contained_eq(&na, &nb), catch(|| na == nb)) {
            (Some(e), Ok(g)) if e == g => {}
            (None, Err(_)) => {}
            (e, g) => {
                v.fail("container == | differs from the contained types", format!("{} == {}: contained {:?}, container {:?}", show(&na), show(&nb), e, g.ok()));
                return v;
            }
        }
        match (contained_cmp(&na, &nb), catch(|| na.partial_cmp(&nb))) {
            (Some(e), Ok(g)) if e == g => {}
            (None, Err(_)) => {}
            (e, g) => {
                v.fail("container partial_cmp | differs from the contained types", format!("{} cmp {}: contained {:?}, container {:?}", show(&na), show(&nb), e, g.ok()));
                return v;
            }
        }
        let f = c.f.0;
        let fl = Number::F64(f);
        if (na == f) != contained_eq(&na, &fl).unwrap() || (f == na) != contained_eq(&fl, &na).unwrap() || na.partial_cmp(&f) != contained_cmp(&na, &fl).unwrap() || f.partial_cmp(&na) != contained_cmp(&fl, &na).unwrap() {
            v.fail("container ==/partial_cmp with float | differs from the contained types", format!("{} vs {:e}", show(&na), f));
            return v;
        }
        // unary operators and functions (arguments moved into each function's domain)
        let pos = c.a.with_real(c.a.real.0.abs().max(0.05)).number();
        let unit = c.a.with_real(0.05 + 0.9 * (c.a.real.0.abs() / 3.1).min(1.0)).number();
        for (name, arg) in [("neg", &na), ("abs", &na), ("exp", &na), ("log", &pos), ("norm_cdf", &na), ("inv_norm_cdf", &unit), ("pow", &pos), ("signum", &na)] {
            match catch(|| (unary_container(name, arg, c.power.0), unary_contained(name, arg, c.power.0))) {
                Ok((g, e)) => {
                    v.label(intern(format!("table:{}:{}", name, kind_name(arg))));
                    if !same_number(&g, &e) {
                        v.fail(format!("container {} | differs from the contained type", name), format!("{}({}): container {}, contained {}", name, show(arg), show(&g), show(&e)));
                        return v;
                    }
                }
                Err(p) => {
                    v.fail(format!("container {} | panic | {}", name, p.site()), p.message);
                    return v;
                }
            }
        }
        // owned forms of neg / pow
        if !same_number(&-(na.clone()), &unary_contained("neg", &na, 0.0)) || !same_number(&pos.clone().pow(c.power.0), &unary_contained("pow", &pos, c.power.0)) {
            v.fail("container neg/pow (owned) | differs from the contained type", show(&na));
            return v;
        }
        // abs_sub
        match (contained_bin(Bin::Sub, &na, &nb), catch(|| na.abs_sub(&nb))) {
            (Some(diff), Ok(g)) => {
                let le = contained_cmp(&na, &nb).unwrap().map_or(false, |o| o != Ordering::Greater);
                let exp = if le {
                    match &diff {
                        Number::F64(_) => Number::F64(0.0),
                        Number::Dual(_) => Number::Dual(Dual::new(0.0, vec![])),
                        Number::Dual2(_) => Number::Dual2(Dual2::new(0.0, vec![])),
                    }
                } else {
                    // contained abs_sub is self - other on the contained kinds (floats promoted)
                    match (&na, &nb) {
                        (Number::F64(x), Number::F64(y)) => Number::F64(x - y),
                        (Number::F64(x), Number::Dual(y)) => Number::Dual(Dual::new(*x, vec![]) - y),
                        (Number::F64(x), Number::Dual2(y)) => Number::Dual2(Dual2::new(*x, vec![]) - y),
                        (Number::Dual(x), Number::F64(y)) => Number::Dual(x - Dual::new(*y, vec![])),
                        (Number::Dual2(x), Number::F64(y)) => Number::Dual2(x - Dual2::new(*y, vec![])),
                        _ => diff.clone(),
                    }
                };
                let close_enough = match (&g, &exp) {
                    (Number::F64(x), Number::F64(y)) => (x - y).abs() <= 1e-15 * (x.abs() + y.abs()),
                    _ => same_number(&g, &exp),
                };
                if !close_enough {
                    v.fail("container abs_sub | differs from the contained types", format!("{} abs_sub {}: container {}, expected {}", show(&na), show(&nb), show(&g), show(&exp)));
                    return v;
                }
            }
            (None, Err(_)) => {}
            (None, Ok(g)) => {
                v.fail("container abs_sub | first-order with second-order was computed, not refused", show(&g));
                return v;
            }
            (Some(_), Err(p)) => {
                v.fail(format!("container abs_sub | panic on a valid pairing | {}", p.site()), p.message);
                return v;
            }
        }
        // zero / one / sum over numbers that can be combined with `a`
        let compatible: Vec<Number> = std::iter::once(na.clone())
            .chain(c.more.iter().map(|m| m.number()))
            .filter(|m| contained_bin(Bin::Add, &na, m).is_some())
            .collect();
        let compatible: Vec<Number> = {
            // keep a prefix in which no first-order meets a second-order number
            let mut out: Vec<Number> = Vec::new();
            for m in compatible {
                if out.iter().all(|o| contained_bin(Bin::Add, o, &m).is_some()) {
                    out.push(m);
                }
            }
            out
        };
        match catch(|| compatible.iter().cloned().sum::<Number>()) {
            Ok(s) => {
                let mut acc = Number::F64(0.0);
                for m in &compatible {
                    acc = contained_bin(Bin::Add, &acc, m).unwrap();
                }
                if !same_number(&s, &acc) {
                    v.fail("container sum | differs from adding the contained types left to right from zero", format!("{} vs {}", show(&s), show(&acc)));
                    return v;
                }
            }
            Err(p) => {
                v.fail(format!("container sum | panic | {}", p.site()), p.message);
                return v;
            }
        }
        if !same_number(&Number::zero(), &Number::F64(0.0)) || !same_number(&Number::one(), &Number::F64(1.0)) {
            v.fail("container zero/one | not the float identities", "".to_string());
        }
        v
    }

    fn plan(&self, tier: Tier) -> Vec<Stage<Case>> {
        vec![Stage::random("random", tier.pick(300_000, 8_000_000), || {
            (
                num_spec(),
                num_spec(),
                real_value(),
                proptest::collection::vec(0u8..8, 0..5),
                prop_oneof![prop::sample::select(vec![-2.0, -1.0, -0.5, 0.5, 1.0, 2.0, 3.0]).prop_map(Fl), (-3.0f64..3.0).prop_map(Fl)],
                proptest::collection::vec(num_spec(), 0..4),
            )
                .prop_map(|(a, b, f, lift, power, more)| Case { a, b, f, lift, power, more })
        })]
    }

    fn rule(&self) -> String {
        "random tuples (two numbers of any of the three kinds with arbitrary derivative content on 0-4 of 8 names, a bare float, a list of names with duplicates for lifting, a power, up to 3 more numbers); for EVERY tuple the complete tables are evaluated: 3 source kinds x 3 target orders through set_order and set_order_clone plus all From impls against the conversion table of the property (bit-exact: names de-duplicated in order, unit first derivatives, zero Hessian, nothing else changed); {+,-,*,/,%} x (container.container in ref and owned form, container.float, float.container), ==, partial_cmp, neg, abs, exp, log, norm_cdf, inv_norm_cdf, pow, signum, abs_sub, sum, zero, one against the same operation written directly on the contained types (bit-exact); first-order with second-order pairings must not return a value. Non-trivial: the two kinds differ.".into()
    }

    fn floors(&self, tier: Tier) -> Vec<Floor> {
        let m = tier.pick(5000u64, 100_000);
        let mut f = Vec::new();
        for op in ["add", "sub", "mul", "div", "rem"] {
            for k in ["f64.f64", "f64.Dual", "f64.Dual2", "Dual.f64", "Dual.Dual", "Dual2.f64", "Dual2.Dual2"] {
                f.push(Floor { label: intern(format!("table:{}:{}", op, k)), min: m });
            }
            for k in ["Dual.Dual2", "Dual2.Dual"] {
                f.push(Floor { label: intern(format!("refused:{}:{}", op, k)), min: m });
            }
        }
        for s in ["f64", "Dual", "Dual2"] {
            for t in 0..3 {
                f.push(Floor { label: intern(format!("convert:{}->{}", s, t)), min: m });
            }
        }
        f.push(Floor { label: "lift:duplicate-names", min: m });
        f
    }

    fn assumptions(&self) -> Vec<String> {
        vec![
            "the contained types' own arithmetic is the reference for the container (its correctness is C01-C03's subject)".into(),
            "any panic counts as a refusal of a first-order/second-order pairing (the message text is not asserted)".into(),
        ]
    }
}
