//! C16 - Saving and loading an object gives back an equal object.

use crate::engine::*;
use crate::gen::cal::*;
use crate::model::civil;
use crate::props::c09::{ccy, model_valid, tree_quotes, Quote, CCYS};
use crate::props::c14::{knot_spec, KnotSpec};
use crate::props::numgen::same_number;
use crate::util::*;
use indexmap::IndexMap;
use proptest::prelude::*;
use rateslib::calendars::{Cal, CalType, Convention, DateRoll, Modifier, NamedCal, UnionCal};
use rateslib::curves::{CurveDF, FlatBackwardInterpolator, FlatForwardInterpolator, LinearInterpolator, LinearZeroRateInterpolator, LogLinearInterpolator, Nodes, NullInterpolator};
use rateslib::dual::{ADOrder, Dual, Dual2, Gradient1, Gradient2, Number, Vars};
use rateslib::fx::rates::{Ccy, FXRate, FXRates};
use rateslib::json::JSON;
use rateslib::splines::PPSpline;
use rateslib::verif_hooks::{tagged_from_json, tagged_to_json, VCurve, VInterp, VObj};
use serde::{de::DeserializeOwned, Deserialize, Serialize};

#[derive(Clone, Debug, Serialize, Deserialize)]
pub struct DualSpec {
    pub real: Fl,
    pub names: Vec<String>,
    pub d1: Vec<Fl>,
    pub d2: Vec<Fl>,
}

impl DualSpec {
    fn names_dedup(&self) -> Vec<String> {
        let mut v: Vec<String> = Vec::new();
        for n in &self.names {
            if !v.contains(n) {
                v.push(n.clone());
            }
        }
        v
    }
    pub fn dual(&self) -> Dual {
        let names = self.names_dedup();
        let n = names.len();
        if n == 0 {
            return Dual::new(self.real.0, vec![]);
        }
        Dual::try_new(self.real.0, names, (0..n).map(|i| self.d1.get(i).map_or(1.5, |f| f.0)).collect()).expect("dual spec")
    }
    pub fn dual2(&self) -> Dual2 {
        let names = self.names_dedup();
        let n = names.len();
        if n == 0 {
            return Dual2::new(self.real.0, vec![]);
        }
        let d1 = (0..n).map(|i| self.d1.get(i).map_or(1.5, |f| f.0)).collect();
        let d2 = (0..n * n).map(|i| self.d2.get(i).map_or(0.25, |f| f.0)).collect();
        Dual2::try_new(self.real.0, names, d1, d2).expect("dual2 spec")
    }
    pub fn number(&self, kind: u8) -> Number {
        match kind % 3 {
            0 => Number::F64(self.real.0),
            1 => Number::Dual(self.dual()),
            _ => Number::Dual2(self.dual2()),
        }
    }
}

#[derive(Clone, Debug, Serialize, Deserialize)]
pub enum Obj {
    Dual(DualSpec),
    Dual2(DualSpec),
    Cal(CalSpec),
    Union(UnionSpec),
    Named(String),
    CalType(AnyCal),
    Curve {
        /// 0..4 the five rules, 5 = null interpolator
        rule: u8,
        order: u8,
        cal: AnyCal,
        nodes: Vec<(i64, DualSpec)>,
        id: String,
        index_base: Option<Fl>,
        convention: u8,
        modifier: u8,
        /// the Python-facing wrapper (through the hook) instead of the generic struct
        wrapper: bool,
    },
    Fx {
        quotes: Vec<Quote>,
        kinds: Vec<(u8, DualSpec)>,
        base: Option<u16>,
        /// derivative order the market is in when it is saved
        state: u8,
        /// quote updates (index into the quotes, new rate) applied, one call each, before saving
        #[serde(default)]
        updates: Vec<(u16, Fl)>,
        /// time of day (seconds, nanoseconds) of the common settlement date-time, if the quotes have one
        #[serde(default)]
        settle_time: Option<(u32, u32)>,
    },
    Spline {
        kind: u8,
        knots: KnotSpec,
        coeffs: Option<Vec<DualSpec>>,
    },
    FxRate { q: Quote, kind: u8, content: DualSpec },
    Ccy(String),
    Number(u8, DualSpec),
    /// 0 ADOrder, 1 Modifier, 2 Convention
    Enum(u8, u8),
    /// two wide numbers (16-40 variables) over the same names in different orders, saved together
    /// and loaded one right after the other (both kept alive): loading must not couple them
    WidePair { n: u8, second: bool, rot: u8, coeffs: Vec<Fl> },
}

#[derive(Clone, Debug, Serialize, Deserialize)]
pub struct Case {
    pub obj: Obj,
}

pub struct C16;

// ---------------------------------------------------------------------------------------------
// generators

/// doubles with a full random mantissa (these need 16-17 significant digits) and an exponent
/// in the given range, either sign
pub fn mantissa_rich(lo_exp: i32, hi_exp: i32) -> impl Strategy<Value = Fl> {
    (any::<u64>(), lo_exp..=hi_exp, any::<bool>()).prop_map(|(m, e, neg)| {
        let bits = (((1023 + e) as u64) << 52) | (m & ((1u64 << 52) - 1));
        let f = f64::from_bits(bits);
        Fl(if neg { -f } else { f })
    })
}

fn float_any() -> impl Strategy<Value = Fl> {
    prop_oneof![3 => any_finite(), 3 => mantissa_rich(-30, 30), 1 => (-1000i32..1000).prop_map(|i| Fl(i as f64 * 0.25))]
}

fn positive_rich() -> impl Strategy<Value = Fl> {
    mantissa_rich(-6, 6).prop_map(|f| Fl(f.0.abs()))
}

pub fn name() -> impl Strategy<Value = String> {
    prop_oneof![
        4 => "[a-z]{1,4}[0-9]{0,2}",
        2 => prop::sample::select(vec!["a\"b", "back\\slash", "tab\there", "new\nline", "ünï", "名前", "\u{1F600}", " lead", "fx_eurusd", "", "{}", "null", "a,b|c", "\u{0001}ctl"]).prop_map(|s| s.to_string()),
        1 => "\\PC{1,6}",
    ]
}

pub fn dual_spec() -> impl Strategy<Value = DualSpec> {
    (float_any(), proptest::collection::vec(name(), 0..=6), proptest::collection::vec(float_any(), 6), proptest::collection::vec(float_any(), 36))
        .prop_map(|(real, names, d1, d2)| DualSpec { real, names, d1, d2 })
}

fn cal_spec_any() -> impl Strategy<Value = CalSpec> {
    (base_day(), cal_spec_rel(200)).prop_map(|(b, c)| c.shift(b))
}

fn any_cal() -> impl Strategy<Value = AnyCal> {
    (base_day(), any_cal_rel(200)).prop_map(|(b, c)| c.shift(b))
}

fn curve_obj() -> impl Strategy<Value = Obj> {
    (
        0u8..6,
        0u8..3,
        any_cal(),
        proptest::collection::vec(((1i64..=400_000_000), positive_rich(), dual_spec()), 1..8),
        prop_oneof![Just("crv".to_string()), name()],
        proptest::option::of(positive_rich()),
        0u8..11,
        0u8..5,
        any::<bool>(),
    )
        .prop_map(|(rule, order, cal, steps, id, index_base, convention, modifier, wrapper)| {
            let mut t = 946_684_800i64;
            let nodes = steps
                .into_iter()
                .map(|(dt, v, mut content)| {
                    t += dt;
                    content.real = v;
                    (t, content)
                })
                .collect();
            Obj::Curve { rule, order, cal, nodes, id, index_base, convention, modifier, wrapper }
        })
}

fn obj() -> impl Strategy<Value = Obj> {
    prop_oneof![
        4 => dual_spec().prop_map(Obj::Dual),
        4 => dual_spec().prop_map(Obj::Dual2),
        2 => cal_spec_any().prop_map(Obj::Cal),
        2 => (base_day(), union_spec_rel(200)).prop_map(|(b, u)| Obj::Union(u.shift(b))),
        1 => named_string().prop_map(Obj::Named),
        2 => any_cal().prop_map(Obj::CalType),
        6 => curve_obj(),
        4 => (tree_quotes(), proptest::collection::vec((0u8..3, dual_spec()), 11), proptest::option::of(any::<u16>()), 0u8..3, proptest::collection::vec((any::<u16>(), log_uniform(0.01, 200.0)), 0..3), proptest::option::weighted(0.4, (0u32..86_400, prop_oneof![1 => Just(0u32), 2 => 0u32..1_000_000_000]))).prop_map(|(mut quotes, kinds, base, state, updates, settle_time)| {
            // FX quotes: mantissa-rich positive rates (the generator's log-uniform rates are kept
            // but given random low-order bits so that they need 17 digits)
            for (i, q) in quotes.iter_mut().enumerate() {
                let bits = q.rate.0.to_bits() ^ (kinds[i % kinds.len()].1.real.0.to_bits() & 0xFFFF_FFFF);
                q.rate = Fl(f64::from_bits(bits));
            }
            Obj::Fx { quotes, kinds, base, state, updates, settle_time }
        }),
        4 => (0u8..3, knot_spec(), proptest::option::weighted(0.7, proptest::collection::vec(dual_spec(), 30))).prop_map(|(kind, knots, coeffs)| Obj::Spline { kind, knots, coeffs }),
        1 => (tree_quotes(), 0u8..3, dual_spec()).prop_map(|(q, kind, content)| Obj::FxRate { q: q[0].clone(), kind, content }),
        1 => "[a-zA-Z]{3}".prop_map(Obj::Ccy),
        2 => (0u8..3, dual_spec()).prop_map(|(k, d)| Obj::Number(k, d)),
        1 => (0u8..3, 0u8..11).prop_map(|(w, x)| Obj::Enum(w, x)),
        1 => (16u8..=40, any::<bool>(), 1u8..=39, proptest::collection::vec(coeff(), 80)).prop_map(|(n, second, rot, coeffs)| Obj::WidePair { n, second, rot, coeffs }),
    ]
}

// ---------------------------------------------------------------------------------------------
// round-trip machinery

#[derive(Clone, Copy, PartialEq)]
enum Path {
    Json,
    Tagged,
    Bincode,
}
impl Path {
    fn name(self) -> &'static str {
        match self {
            Path::Json => "json",
            Path::Tagged => "tagged-json",
            Path::Bincode => "bincode",
        }
    }
}

fn json_rt<T: Serialize + DeserializeOwned>(x: &T) -> Result<(T, String), String> {
    let s = serde_json::to_string(x).map_err(|e| format!("serialise: {}", e))?;
    let y = serde_json::from_str::<T>(&s).map_err(|e| format!("deserialise: {} (text: {})", e, s.chars().take(300).collect::<String>()))?;
    Ok((y, s))
}
fn trait_rt<T: JSON>(x: &T) -> Result<(T, String), String> {
    let s = x.to_json().map_err(|e| format!("to_json: {}", e))?;
    let y = T::from_json(&s).map_err(|e| format!("from_json: {} (text: {})", e, s.chars().take(300).collect::<String>()))?;
    Ok((y, s))
}
fn bin_rt<T: Serialize + DeserializeOwned>(x: &T) -> Result<T, String> {
    let b = bincode::serialize(x).map_err(|e| format!("bincode serialise: {}", e))?;
    bincode::deserialize::<T>(&b).map_err(|e| format!("bincode deserialise: {}", e))
}

fn dual_bits(d: &Dual) -> Vec<u64> {
    std::iter::once(d.real().to_bits()).chain(d.dual().iter().map(|x| x.to_bits())).collect()
}
fn dual2_bits(d: &Dual2) -> Vec<u64> {
    std::iter::once(d.real().to_bits()).chain(d.dual().iter().map(|x| x.to_bits())).chain(d.dual2().iter().map(|x| x.to_bits())).collect()
}
fn number_bits(n: &Number) -> Vec<u64> {
    match n {
        Number::F64(f) => vec![0, f.to_bits()],
        Number::Dual(d) => std::iter::once(1).chain(dual_bits(d)).collect(),
        Number::Dual2(d) => std::iter::once(2).chain(dual2_bits(d)).collect(),
    }
}

/// business / settlement answers around every holiday of the spec and at a few fixed dates
fn cal_answers(c: &dyn Fn(i64) -> (bool, bool), probe: &[i64]) -> Vec<u64> {
    probe.iter().map(|z| {
        let (b, s) = c(*z);
        (b as u64) | ((s as u64) << 1)
    }).collect()
}

fn probe_days(spec_hols: &[i64]) -> Vec<i64> {
    let mut v: Vec<i64> = vec![0, 1, 2, 3, 4, 5, 6, 19_000, 19_722, 19_723, civil::day_max()];
    for h in spec_hols.iter().take(60) {
        for o in -2..=2 {
            v.push(h + o);
        }
    }
    v
}

fn hols_of(c: &AnyCal) -> Vec<i64> {
    fn of_member(m: &MemberSpec, out: &mut Vec<i64>) {
        if let MemberSpec::Custom(c) = m {
            out.extend(c.hols.iter().cloned());
        }
    }
    let mut out = Vec::new();
    match c {
        AnyCal::Cal(c) => out.extend(c.hols.iter().cloned()),
        AnyCal::Union(u) => {
            u.members.iter().for_each(|m| of_member(m, &mut out));
            if let Some(s) = &u.settle {
                s.iter().for_each(|m| of_member(m, &mut out));
            }
        }
        AnyCal::Named(_) => out.extend([19_722, 19_810, 20_089, 12_000]),
    }
    out
}

fn needs_17_digits(f: f64) -> bool {
    f.is_finite() && format!("{:e}", f).split('e').next().map_or(0, |m| m.chars().filter(|c| c.is_ascii_digit()).count()) >= 16
}

macro_rules! fail_rt {
    ($v:expr, $ty:expr, $path:expr, $what:expr, $detail:expr) => {{
        $v.fail(format!("{} | {} | {}", $ty, $path.name(), $what), $detail);
        return;
    }};
}

fn order_of(k: u8) -> ADOrder {
    match k % 3 {
        0 => ADOrder::Zero,
        1 => ADOrder::One,
        _ => ADOrder::Two,
    }
}
fn convention_of(k: u8) -> Convention {
    [Convention::One, Convention::OnePlus, Convention::Act365F, Convention::Act365FPlus, Convention::Act360, Convention::ThirtyE360, Convention::Thirty360, Convention::Thirty360ISDA, Convention::ActActISDA, Convention::ActActICMA, Convention::Bus252][k as usize % 11]
}
fn modifier_of(k: u8) -> Modifier {
    [Modifier::Act, Modifier::F, Modifier::ModF, Modifier::P, Modifier::ModP][k as usize % 5]
}

fn nodes_of(order: u8, nodes: &[(i64, DualSpec)]) -> Nodes {
    match order % 3 {
        0 => Nodes::F64(nodes.iter().map(|(t, c)| (secs_to_ndt(*t), c.real.0)).collect()),
        1 => Nodes::Dual(nodes.iter().map(|(t, c)| (secs_to_ndt(*t), c.dual())).collect()),
        _ => Nodes::Dual2(nodes.iter().map(|(t, c)| (secs_to_ndt(*t), c.dual2())).collect()),
    }
}

macro_rules! curve_paths {
    ($v:expr, $interp:expr, $name:expr, $rule:expr, $order:expr, $cal:expr, $nodes:expr, $id:expr, $ib:expr, $conv:expr, $modi:expr) => {{
        let curve = CurveDF::try_new(nodes_of($order, $nodes), $interp, $id, convention_of($conv), modifier_of($modi), $ib.map(|b: Fl| b.0), $cal.build()).expect("curve");
        let queries: Vec<chrono::NaiveDateTime> = $nodes.iter().map(|(t, _)| secs_to_ndt(*t)).chain($nodes.windows(2).map(|w| secs_to_ndt((w[0].0 + w[1].0) / 2))).chain([secs_to_ndt($nodes[0].0 - 86400), secs_to_ndt($nodes[$nodes.len() - 1].0 + 86400 * 30)]).collect();
        let answers = |c: &CurveDF<_, CalType>| -> Vec<Vec<u64>> {
            let mut out = vec![];
            if $rule < 5 && $nodes.len() >= 2 {
                for q in &queries {
                    out.push(number_bits(&c.interpolated_value(q)));
                    if let Ok(iv) = c.index_value(q) {
                        out.push(number_bits(&iv));
                    }
                }
            }
            out
        };
        let base = answers(&curve);
        for path in [Path::Json, Path::Bincode] {
            let loaded = match path {
                Path::Json => trait_rt(&curve).map(|x| x.0),
                _ => bin_rt(&curve),
            };
            match loaded {
                Ok(l) => {
                    if l != curve {
                        fail_rt!($v, $name, path, "loaded object is not equal", format!("order {}, nodes {:?}", $order, $nodes));
                    }
                    if answers(&l) != base {
                        fail_rt!($v, $name, path, "loaded curve answers look-ups differently", format!("order {}", $order));
                    }
                    if l.ad() != curve.ad() {
                        fail_rt!($v, $name, path, "derivative order changed", "".to_string());
                    }
                }
                Err(e) => fail_rt!($v, $name, path, "round trip failed", e),
            }
        }
    }};
}

impl C16 {
    fn run(&self, obj: &Obj, v: &mut Verdict) {
        match obj {
            Obj::Dual(s) => {
                v.label("type:Dual");
                let d = s.dual();
                v.nt(dual_bits(&d).iter().any(|b| needs_17_digits(f64::from_bits(*b))) || s.names.iter().any(|n| !n.chars().all(|c| c.is_ascii_alphanumeric())));
                v.label_if(dual_bits(&d).iter().any(|b| needs_17_digits(f64::from_bits(*b))), "floats:17-digit");
                for path in [Path::Json, Path::Tagged, Path::Bincode] {
                    let loaded: Result<Dual, String> = match path {
                        Path::Json => json_rt(&d).map(|x| x.0),
                        Path::Tagged => tagged_to_json(&VObj::Dual(d.clone())).and_then(|t| tagged_from_json(&t)).and_then(|o| if let VObj::Dual(x) = o { Ok(x) } else { Err("tagged entry point returned another type".to_string()) }),
                        Path::Bincode => bin_rt(&d),
                    };
                    match loaded {
                        Ok(l) => {
                            if l != d {
                                fail_rt!(v, "Dual", path, "loaded object is not equal", format!("{:?} vs {:?}", l, d));
                            }
                            if dual_bits(&l) != dual_bits(&d) || !l.vars().iter().eq(d.vars().iter()) {
                                fail_rt!(v, "Dual", path, "loaded object differs in content", format!("{:?} vs {:?}", l, d));
                            }
                        }
                        Err(e) => fail_rt!(v, "Dual", path, "round trip failed", e),
                    }
                }
            }
            Obj::Dual2(s) => {
                v.label("type:Dual2");
                let d = s.dual2();
                v.nt(dual2_bits(&d).iter().any(|b| needs_17_digits(f64::from_bits(*b))));
                v.label_if(dual2_bits(&d).iter().any(|b| needs_17_digits(f64::from_bits(*b))), "floats:17-digit");
                for path in [Path::Json, Path::Tagged, Path::Bincode] {
                    let loaded: Result<Dual2, String> = match path {
                        Path::Json => json_rt(&d).map(|x| x.0),
                        Path::Tagged => tagged_to_json(&VObj::Dual2(d.clone())).and_then(|t| tagged_from_json(&t)).and_then(|o| if let VObj::Dual2(x) = o { Ok(x) } else { Err("tagged entry point returned another type".to_string()) }),
                        Path::Bincode => bin_rt(&d),
                    };
                    match loaded {
                        Ok(l) => {
                            if l != d {
                                fail_rt!(v, "Dual2", path, "loaded object is not equal", format!("{:?} vs {:?}", l, d));
                            }
                            if dual2_bits(&l) != dual2_bits(&d) || !l.vars().iter().eq(d.vars().iter()) || l.dual2().dim() != d.dual2().dim() {
                                fail_rt!(v, "Dual2", path, "loaded object differs in content", format!("{:?} vs {:?}", l, d));
                            }
                        }
                        Err(e) => fail_rt!(v, "Dual2", path, "round trip failed", e),
                    }
                }
            }
            Obj::Cal(spec) => {
                v.label("type:Cal");
                v.nt(!spec.hols.is_empty());
                let c = spec.build();
                let probe = probe_days(&spec.hols);
                let ans = |c: &Cal| cal_answers(&|z| (c.is_bus_day(&day_to_ndt(z)), c.is_settlement(&day_to_ndt(z))), &probe);
                for path in [Path::Json, Path::Tagged, Path::Bincode] {
                    let loaded: Result<Cal, String> = match path {
                        Path::Json => trait_rt(&c).map(|x| x.0),
                        Path::Tagged => tagged_to_json(&VObj::Cal(c.clone())).and_then(|t| tagged_from_json(&t)).and_then(|o| if let VObj::Cal(x) = o { Ok(x) } else { Err("tagged entry point returned another type".to_string()) }),
                        Path::Bincode => bin_rt(&c),
                    };
                    match loaded {
                        Ok(l) => {
                            if l != c {
                                fail_rt!(v, "Cal", path, "loaded object is not equal", format!("{:?}", spec));
                            }
                            if ans(&l) != ans(&c) {
                                fail_rt!(v, "Cal", path, "loaded calendar answers differently", format!("{:?}", spec));
                            }
                        }
                        Err(e) => fail_rt!(v, "Cal", path, "round trip failed", e),
                    }
                }
                // a document written by another producer: the same calendar with its holiday list in
                // another order (reversed and rotated) must load to an equal calendar that answers
                // as the week mask and the holiday list say
                if spec.hols.len() >= 2 {
                    if let Ok(text) = c.to_json() {
                        fn reorder(v: &mut serde_json::Value, rot: usize) -> bool {
                            match v {
                                serde_json::Value::Object(m) => {
                                    if let Some(serde_json::Value::Array(a)) = m.get_mut("holidays") {
                                        a.reverse();
                                        let k = rot % a.len().max(1);
                                        a.rotate_left(k);
                                        return true;
                                    }
                                    m.values_mut().any(|x| reorder(x, rot))
                                }
                                serde_json::Value::Array(a) => a.iter_mut().any(|x| reorder(x, rot)),
                                _ => false,
                            }
                        }
                        if let Ok(mut val) = serde_json::from_str::<serde_json::Value>(&text) {
                            if reorder(&mut val, spec.hols.len() / 3 + 1) {
                                v.label("document:holidays-in-another-order");
                                match catch(|| Cal::from_json(&val.to_string())) {
                                    Ok(Ok(l)) => {
                                        let by_spec = cal_answers(&|z| (spec.is_bus(z), true), &probe);
                                        if l != c || ans(&l) != by_spec {
                                            fail_rt!(v, "Cal", Path::Json, "a document listing the holidays in another order loads to a different calendar", format!("{:?}", spec));
                                        }
                                    }
                                    Ok(Err(e)) => fail_rt!(v, "Cal", Path::Json, "a document listing the holidays in another order is refused", format!("{}", e)),
                                    Err(p) => fail_rt!(v, "Cal", Path::Json, "panic loading a re-ordered document", p.message),
                                }
                            }
                        }
                    }
                }
            }
            Obj::Union(spec) => {
                v.label("type:UnionCal");
                v.nt(true);
                let c = spec.build();
                let probe = probe_days(&hols_of(&AnyCal::Union(spec.clone())));
                let ans = |c: &UnionCal| cal_answers(&|z| (c.is_bus_day(&day_to_ndt(z)), c.is_settlement(&day_to_ndt(z))), &probe);
                for path in [Path::Json, Path::Tagged, Path::Bincode] {
                    let loaded: Result<UnionCal, String> = match path {
                        Path::Json => trait_rt(&c).map(|x| x.0),
                        Path::Tagged => tagged_to_json(&VObj::UnionCal(c.clone())).and_then(|t| tagged_from_json(&t)).and_then(|o| if let VObj::UnionCal(x) = o { Ok(x) } else { Err("tagged entry point returned another type".to_string()) }),
                        Path::Bincode => bin_rt(&c),
                    };
                    match loaded {
                        Ok(l) => {
                            if path == Path::Json && l != c {
                                fail_rt!(v, "UnionCal", path, "loaded object is not equal", format!("{:?}", spec));
                            }
                            if ans(&l) != ans(&c) {
                                fail_rt!(v, "UnionCal", path, "loaded calendar answers differently", format!("{:?}", spec));
                            }
                            if l.is_settlement(&day_to_ndt(0)) != c.is_settlement(&day_to_ndt(0)) {
                                fail_rt!(v, "UnionCal", path, "settlement list changed", format!("{:?}", spec));
                            }
                        }
                        Err(e) => fail_rt!(v, "UnionCal", path, "round trip failed", e),
                    }
                }
            }
            Obj::Named(name) => {
                v.label("type:NamedCal");
                v.nt(true);
                let c = NamedCal::try_new(name).expect("valid name");
                let probe = probe_days(&[19_722, 19_810, 20_089, 12_000, 300, 84_000]);
                let ans = |c: &NamedCal| cal_answers(&|z| (c.is_bus_day(&day_to_ndt(z)), c.is_settlement(&day_to_ndt(z))), &probe);
                for path in [Path::Json, Path::Tagged, Path::Bincode] {
                    let loaded: Result<NamedCal, String> = match path {
                        Path::Json => trait_rt(&c).and_then(|(x, text)| {
                            // stored by name only
                            let val: serde_json::Value = serde_json::from_str(&text).map_err(|e| e.to_string())?;
                            let ok = val.as_object().map_or(false, |o| o.len() == 1 && o.get("name").and_then(|n| n.as_str()) == Some(&name.to_lowercase()));
                            if ok { Ok(x) } else { Err(format!("a named calendar must be stored by name only, got {}", text.chars().take(200).collect::<String>())) }
                        }),
                        Path::Tagged => tagged_to_json(&VObj::NamedCal(c.clone())).and_then(|t| tagged_from_json(&t)).and_then(|o| if let VObj::NamedCal(x) = o { Ok(x) } else { Err("tagged entry point returned another type".to_string()) }),
                        Path::Bincode => bin_rt(&c),
                    };
                    match loaded {
                        Ok(l) => {
                            if ans(&l) != ans(&c) {
                                fail_rt!(v, "NamedCal", path, "loaded calendar answers differently", name.clone());
                            }
                            if path == Path::Json && l != c {
                                fail_rt!(v, "NamedCal", path, "loaded object is not equal", name.clone());
                            }
                        }
                        Err(e) => fail_rt!(v, "NamedCal", path, "round trip failed", e),
                    }
                }
            }
            Obj::CalType(any) => {
                v.label("type:CalType");
                v.nt(true);
                let c = any.build();
                let probe = probe_days(&hols_of(any));
                let ans = |c: &CalType| cal_answers(&|z| (c.is_bus_day(&day_to_ndt(z)), c.is_settlement(&day_to_ndt(z))), &probe);
                for path in [Path::Json, Path::Bincode] {
                    let loaded: Result<CalType, String> = match path {
                        Path::Json => trait_rt(&c).map(|x| x.0),
                        _ => bin_rt(&c),
                    };
                    match loaded {
                        Ok(l) => {
                            if ans(&l) != ans(&c) {
                                fail_rt!(v, "CalType", path, "loaded calendar answers differently", format!("{:?}", any));
                            }
                            let same_variant = std::mem::discriminant(&l) == std::mem::discriminant(&c);
                            if !same_variant || (path == Path::Json && l != c) {
                                fail_rt!(v, "CalType", path, "loaded object is not equal", format!("{:?}", any));
                            }
                        }
                        Err(e) => fail_rt!(v, "CalType", path, "round trip failed", e),
                    }
                }
            }
            Obj::Curve { rule, order, cal, nodes, id, index_base, convention, modifier, wrapper } => {
                v.nt(true);
                v.label(intern(format!("curve:order{}", order % 3)));
                v.label(cal.kind());
                if *wrapper {
                    v.label("type:Curve(wrapper)");
                    let interp = [VInterp::Linear, VInterp::LogLinear, VInterp::LinearZeroRate, VInterp::FlatForward, VInterp::FlatBackward, VInterp::Null][*rule as usize % 6];
                    // the wrapper's constructor takes numbers of any kind plus the order
                    let map: IndexMap<chrono::NaiveDateTime, Number> = nodes.iter().map(|(t, c)| (secs_to_ndt(*t), c.number(*order))).collect();
                    let curve = VCurve::new(map, interp, order_of(*order), id, convention_of(*convention), modifier_of(*modifier), cal.build(), index_base.map(|b| b.0)).expect("wrapper curve");
                    let queries: Vec<chrono::NaiveDateTime> = nodes.iter().map(|(t, _)| secs_to_ndt(*t + 4321)).collect();
                    let answers = |c: &VCurve| -> Vec<Vec<u64>> {
                        if *rule % 6 == 5 || nodes.len() < 2 {
                            return vec![];
                        }
                        queries.iter().map(|q| number_bits(&c.get(q))).collect()
                    };
                    let base = answers(&curve);
                    for path in [Path::Json, Path::Tagged, Path::Bincode] {
                        let loaded: Result<VCurve, String> = match path {
                            Path::Json => curve.to_json().and_then(|t| VCurve::from_json(&t)),
                            Path::Tagged => tagged_to_json(&VObj::Curve(curve.clone())).and_then(|t| tagged_from_json(&t)).and_then(|o| if let VObj::Curve(x) = o { Ok(x) } else { Err("tagged entry point returned another type".to_string()) }),
                            Path::Bincode => curve.to_bincode().and_then(|b| VCurve::from_bincode(&b)),
                        };
                        match loaded {
                            Ok(l) => {
                                if !l.equals(&curve) {
                                    fail_rt!(v, "Curve(wrapper)", path, "loaded object is not equal", format!("rule {} order {} nodes {:?}", rule, order, nodes));
                                }
                                if answers(&l) != base || l.ad() != curve.ad() {
                                    fail_rt!(v, "Curve(wrapper)", path, "loaded curve answers differently", format!("rule {} order {}", rule, order));
                                }
                            }
                            Err(e) => fail_rt!(v, "Curve(wrapper)", path, "round trip failed", e),
                        }
                    }
                } else {
                    v.label("type:CurveDF");
                    match rule % 6 {
                        0 => curve_paths!(v, LinearInterpolator::new(), "CurveDF<Linear>", *rule % 6, *order, cal, nodes, id, *index_base, *convention, *modifier),
                        1 => curve_paths!(v, LogLinearInterpolator::new(), "CurveDF<LogLinear>", *rule % 6, *order, cal, nodes, id, *index_base, *convention, *modifier),
                        2 => curve_paths!(v, LinearZeroRateInterpolator::new(), "CurveDF<LinearZeroRate>", *rule % 6, *order, cal, nodes, id, *index_base, *convention, *modifier),
                        3 => curve_paths!(v, FlatForwardInterpolator::new(), "CurveDF<FlatForward>", *rule % 6, *order, cal, nodes, id, *index_base, *convention, *modifier),
                        4 => curve_paths!(v, FlatBackwardInterpolator::new(), "CurveDF<FlatBackward>", *rule % 6, *order, cal, nodes, id, *index_base, *convention, *modifier),
                        _ => curve_paths!(v, NullInterpolator::new(), "CurveDF<Null>", *rule % 6, *order, cal, nodes, id, *index_base, *convention, *modifier),
                    }
                }
            }
            Obj::Fx { quotes, kinds, base, state, updates, settle_time } => {
                // settlement date-times may carry a time of day down to the nanosecond (datetime.now())
                let st = |d: i64| -> chrono::NaiveDateTime { let (s, n) = settle_time.unwrap_or((0, 0)); day_to_ndt(d) + chrono::Duration::seconds(s as i64) + chrono::Duration::nanoseconds(n as i64) };
                v.label_if(settle_time.map_or(false, |t| t.1 != 0) && quotes.iter().any(|q| q.settle.is_some()), "fx:sub-second-settlement");
                v.label("type:FXRates");
                v.nt(true);
                let nodes = model_valid(quotes, None).1;
                let base_c = base.map(|p| nodes[pick(p, nodes.len())]);
                // number kinds: floats, first-order, or second-order quotes (never first with second)
                let any2 = kinds.iter().take(quotes.len()).any(|k| k.0 % 3 == 2);
                let rates: Vec<FXRate> = quotes
                    .iter()
                    .enumerate()
                    .map(|(i, q)| {
                        let (k, content) = &kinds[i % kinds.len()];
                        let mut c = content.clone();
                        c.real = q.rate;
                        c.names = c.names.iter().filter(|n| !n.starts_with("fx_")).cloned().collect();
                        // keep derivative content tame: it takes part in rate arithmetic
                        c.d1 = c.d1.iter().map(|f| Fl(if f.0.is_finite() && f.0.abs() < 1e6 && f.0.abs() > 1e-6 { f.0 } else { 0.5 })).collect();
                        c.d2 = c.d2.iter().map(|_| Fl(0.0)).collect();
                        let kind = match k % 3 {
                            0 => 0,
                            _ if any2 => 2,
                            _ => 1,
                        };
                        FXRate::try_new(CCYS[q.lhs as usize % 12], CCYS[q.rhs as usize % 12], c.number(kind), q.settle.map(st)).expect("fx rate")
                    })
                    .collect();
                v.label_if(kinds.iter().take(quotes.len()).any(|k| k.0 % 3 != 0), "fx:dual-quotes");
                let mut fx = match FXRates::try_new(rates, base_c.map(ccy)) {
                    Ok(f) => f,
                    Err(_) => {
                        v.fail("generator | fx market invalid", format!("{:?}", quotes));
                        return;
                    }
                };
                let table = |f: &FXRates| -> Vec<Vec<u64>> { nodes.iter().flat_map(|a| nodes.iter().map(move |b| (a, b))).map(|(a, b)| f.rate(&ccy(*a), &ccy(*b)).map_or(vec![9], |n| number_bits(&n))).collect() };
                let values = |f: &FXRates| -> Vec<f64> { nodes.iter().flat_map(|a| nodes.iter().map(move |b| (a, b))).map(|(a, b)| f.rate(&ccy(*a), &ccy(*b)).map_or(f64::NAN, |n| f64::from(&n))).collect() };
                // a market that has lived: quotes updated (as plain floats) before it is saved
                for (i, r) in updates {
                    let q = &quotes[pick(*i, quotes.len())];
                    let newq = FXRate::try_new(CCYS[q.lhs as usize % 12], CCYS[q.rhs as usize % 12], Number::F64(r.0), q.settle.map(st)).expect("fx rate");
                    match catch(|| fx.update(vec![newq])) {
                        Ok(Ok(())) => {}
                        Ok(Err(_)) => {
                            v.fail("generator | fx update of a quoted pair refused", format!("{:?}", quotes));
                            return;
                        }
                        Err(p) => {
                            v.fail(format!("FXRates::update | panic | {}", p.site()), p.message);
                            return;
                        }
                    }
                }
                v.label_if(!updates.is_empty(), "fx:updated-before-saving");
                let first_order_table = table(&fx);
                let _ = fx.set_ad_order(order_of(*state));
                v.label(intern(format!("fx:saved-in-order{}", state % 3)));
                let saved_values = values(&fx);
                for path in [Path::Json, Path::Tagged, Path::Bincode] {
                    let loaded: Result<FXRates, String> = match path {
                        Path::Json => trait_rt(&fx).and_then(|(x, text)| {
                            let val: serde_json::Value = serde_json::from_str(&text).map_err(|e| e.to_string())?;
                            let keys: Vec<String> = val.as_object().map(|o| o.keys().cloned().collect()).unwrap_or_default();
                            if keys.iter().all(|k| k == "fx_rates" || k == "currencies") && keys.len() == 2 { Ok(x) } else { Err(format!("an FX market must be stored as its quotes and currencies only, got keys {:?}", keys)) }
                        }),
                        Path::Tagged => tagged_to_json(&VObj::FXRates(fx.clone())).and_then(|t| tagged_from_json(&t)).and_then(|o| if let VObj::FXRates(x) = o { Ok(x) } else { Err("tagged entry point returned another type".to_string()) }),
                        Path::Bincode => bin_rt(&fx),
                    };
                    match loaded {
                        Ok(l) => {
                            // rates agree in any state
                            let lv = values(&l);
                            if lv.iter().zip(saved_values.iter()).any(|(a, b)| !close(*a, *b, 1e-12, 0.0)) {
                                fail_rt!(v, "FXRates", path, "rates of the loaded market differ", format!("{:?}", quotes));
                            }
                            // compared at the default first order: equal, and identical tables.
                            // A market saved in second-order state is only compared by value and
                            // to rounding in its sensitivities: lowering second-order numbers
                            // reproduces a first-order build only up to the last bit (the two
                            // number kinds associate the power rule differently), and the
                            // property compares markets in their first-order state.
                            let mut l1 = l.clone();
                            let _ = l1.set_ad_order(ADOrder::One);
                            if *state % 3 != 2 {
                                let mut orig1 = fx.clone();
                                let _ = orig1.set_ad_order(ADOrder::One);
                                let eq = catch(|| l1 == orig1).unwrap_or(false);
                                if !eq {
                                    fail_rt!(v, "FXRates", path, "loaded market is not equal (both at first order)", format!("{:?} kinds {:?}", quotes, kinds.iter().map(|k| k.0).collect::<Vec<_>>()));
                                }
                            }
                            if table(&l) != first_order_table {
                                fail_rt!(v, "FXRates", path, "loaded market's first-order rate table differs", format!("{:?}", quotes));
                            }
                        }
                        Err(e) => fail_rt!(v, "FXRates", path, "round trip failed", e),
                    }
                }
            }
            Obj::Spline { kind, knots, coeffs } => {
                let k = knots.order();
                let t = knots.knots();
                let n = t.len() - k;
                v.nt(coeffs.is_some());
                v.label_if(coeffs.is_none(), "spline:unsolved");
                let xs: Vec<f64> = (0..5).map(|i| t[0] + (t[t.len() - 1] - t[0]) * i as f64 / 4.0).collect();
                macro_rules! spline_paths {
                    ($T:ty, $name:expr, $variant:ident, $mk:expr, $bits:expr) => {{
                        v.label(intern(format!("type:{}", $name)));
                        let c: Option<Vec<$T>> = coeffs.as_ref().map(|cs| (0..n).map(|i| $mk(&cs[i % cs.len()])).collect());
                        let sp = PPSpline::<$T>::new(k, t.clone(), c);
                        let answers = |s: &PPSpline<$T>| -> Vec<Vec<u64>> { xs.iter().map(|x| s.ppdnev_single(x, 0).map_or(vec![7], |r| $bits(&r))).collect() };
                        for path in [Path::Json, Path::Tagged, Path::Bincode] {
                            let loaded: Result<PPSpline<$T>, String> = match path {
                                Path::Json => json_rt(&sp).map(|x| x.0),
                                Path::Tagged => tagged_to_json(&VObj::$variant(sp.clone())).and_then(|t| tagged_from_json(&t)).and_then(|o| if let VObj::$variant(x) = o { Ok(x) } else { Err("tagged entry point returned another type".to_string()) }),
                                Path::Bincode => bin_rt(&sp),
                            };
                            match loaded {
                                Ok(l) => {
                                    if l != sp {
                                        fail_rt!(v, $name, path, "loaded object is not equal", format!("k={} t={:?}", k, t));
                                    }
                                    if answers(&l) != answers(&sp) || l.t() != sp.t() || l.k() != sp.k() || l.n() != sp.n() {
                                        fail_rt!(v, $name, path, "loaded spline answers differently", format!("k={} t={:?}", k, t));
                                    }
                                }
                                Err(e) => fail_rt!(v, $name, path, "round trip failed", e),
                            }
                        }
                    }};
                }
                // coefficients take part in arithmetic when evaluating: keep them finite but rich
                let tame = |d: &DualSpec| -> DualSpec {
                    let f = |x: Fl| Fl(if x.0.is_finite() && x.0.abs() < 1e100 { x.0 } else { 0.75 });
                    DualSpec { real: f(d.real), names: d.names.clone(), d1: d.d1.iter().map(|x| f(*x)).collect(), d2: d.d2.iter().map(|x| f(*x)).collect() }
                };
                match kind % 3 {
                    0 => spline_paths!(f64, "PPSplineF64", PPSplineF64, |d: &DualSpec| tame(d).real.0, |r: &f64| vec![r.to_bits()]),
                    1 => spline_paths!(Dual, "PPSplineDual", PPSplineDual, |d: &DualSpec| tame(d).dual(), |r: &Dual| dual_bits(r)),
                    _ => spline_paths!(Dual2, "PPSplineDual2", PPSplineDual2, |d: &DualSpec| tame(d).dual2(), |r: &Dual2| dual2_bits(r)),
                }
            }
            Obj::FxRate { q, kind, content } => {
                v.label("type:FXRate");
                let mut c = content.clone();
                c.real = q.rate;
                let r = FXRate::try_new(CCYS[q.lhs as usize % 12], CCYS[q.rhs as usize % 12], c.number(*kind), q.settle.map(day_to_ndt)).expect("fx rate");
                for path in [Path::Json, Path::Bincode] {
                    let loaded: Result<FXRate, String> = if path == Path::Json { json_rt(&r).map(|x| x.0) } else { bin_rt(&r) };
                    match loaded {
                        Ok(l) => {
                            if l != r {
                                fail_rt!(v, "FXRate", path, "loaded object is not equal", format!("{:?}", r));
                            }
                        }
                        Err(e) => fail_rt!(v, "FXRate", path, "round trip failed", e),
                    }
                }
            }
            Obj::Ccy(s) => {
                v.label("type:Ccy");
                let c = Ccy::try_new(s).expect("ccy");
                for path in [Path::Json, Path::Bincode] {
                    let loaded: Result<Ccy, String> = if path == Path::Json { json_rt(&c).map(|x| x.0) } else { bin_rt(&c) };
                    match loaded {
                        Ok(l) if l == c => {}
                        Ok(_) => fail_rt!(v, "Ccy", path, "loaded object is not equal", s.clone()),
                        Err(e) => fail_rt!(v, "Ccy", path, "round trip failed", e),
                    }
                }
            }
            Obj::Number(kind, content) => {
                v.label("type:Number");
                let nmb = content.number(*kind);
                v.nt(number_bits(&nmb).iter().any(|b| needs_17_digits(f64::from_bits(*b))));
                for path in [Path::Json, Path::Bincode] {
                    let loaded: Result<Number, String> = if path == Path::Json { json_rt(&nmb).map(|x| x.0) } else { bin_rt(&nmb) };
                    match loaded {
                        Ok(l) => {
                            if !same_number(&l, &nmb) {
                                fail_rt!(v, "Number", path, "loaded object differs", format!("{:?}", nmb));
                            }
                        }
                        Err(e) => fail_rt!(v, "Number", path, "round trip failed", e),
                    }
                }
            }
            Obj::WidePair { n, second, rot, coeffs } => {
                v.label("type:wide-pair");
                v.nt(true);
                let n = (*n as usize).clamp(16, 40);
                let names_a: Vec<String> = (0..n).map(|i| format!("v{}", i)).collect();
                let mut names_b = names_a.clone();
                names_b.rotate_left(*rot as usize % n);
                if rot % 2 == 1 {
                    names_b.swap(0, n - 1);
                }
                let ca: Vec<f64> = (0..n).map(|i| coeffs[i % coeffs.len()].0).collect();
                let cb: Vec<f64> = (0..n).map(|i| coeffs[(i + 40) % coeffs.len()].0 + 0.125).collect();
                macro_rules! pair {
                    ($T:ty, $mk:expr, $bits:expr, $name:expr) => {{
                        let a: $T = $mk(1.5, names_a.clone(), ca.clone());
                        let b: $T = $mk(-0.75, names_b.clone(), cb.clone());
                        for path in [Path::Json, Path::Bincode] {
                            let loaded: Result<($T, $T, $T, $T), String> = (|| {
                                if path == Path::Json {
                                    let (ta, tb) = (serde_json::to_string(&a).map_err(|e| e.to_string())?, serde_json::to_string(&b).map_err(|e| e.to_string())?);
                                    let la: $T = serde_json::from_str(&ta).map_err(|e| e.to_string())?;
                                    let lb: $T = serde_json::from_str(&tb).map_err(|e| e.to_string())?; // a is alive
                                    let lb2: $T = serde_json::from_str(&tb).map_err(|e| e.to_string())?;
                                    let la2: $T = serde_json::from_str(&ta).map_err(|e| e.to_string())?; // b is alive
                                    Ok((la, lb, lb2, la2))
                                } else {
                                    let (ba, bb) = (bincode::serialize(&a).map_err(|e| e.to_string())?, bincode::serialize(&b).map_err(|e| e.to_string())?);
                                    let la: $T = bincode::deserialize(&ba).map_err(|e| e.to_string())?;
                                    let lb: $T = bincode::deserialize(&bb).map_err(|e| e.to_string())?;
                                    let lb2: $T = bincode::deserialize(&bb).map_err(|e| e.to_string())?;
                                    let la2: $T = bincode::deserialize(&ba).map_err(|e| e.to_string())?;
                                    Ok((la, lb, lb2, la2))
                                }
                            })();
                            match loaded {
                                Ok((la, lb, lb2, la2)) => {
                                    let same = |x: &$T, y: &$T| x == y && x.vars().iter().eq(y.vars().iter()) && $bits(x) == $bits(y);
                                    if !same(&la, &a) || !same(&lb, &b) || !same(&lb2, &b) || !same(&la2, &a) {
                                        fail_rt!(v, $name, path, "numbers over the same names in another order, loaded one after the other, do not come back as saved", format!("{} names, rotation {}", n, rot));
                                    }
                                }
                                Err(e) => fail_rt!(v, $name, path, "round trip failed", e),
                            }
                        }
                    }};
                }
                if *second {
                    pair!(Dual2, |r: f64, nm: Vec<String>, c: Vec<f64>| { let k = nm.len(); let h: Vec<f64> = (0..k * k).map(|i| ((i % 7) as f64 - 3.0) * 0.25).collect(); Dual2::try_new(r, nm, c, h).expect("wide dual2") }, dual2_bits, "Dual2");
                } else {
                    pair!(Dual, |r: f64, nm: Vec<String>, c: Vec<f64>| Dual::try_new(r, nm, c).expect("wide dual"), dual_bits, "Dual");
                }
            }
            Obj::Enum(which, x) => {
                v.label("type:enums");
                macro_rules! en {
                    ($val:expr, $T:ty, $name:expr) => {{
                        let e: $T = $val;
                        for path in [Path::Json, Path::Bincode] {
                            let loaded: Result<$T, String> = if path == Path::Json { json_rt(&e).map(|x| x.0) } else { bin_rt(&e) };
                            match loaded {
                                Ok(l) if l == e => {}
                                Ok(_) => fail_rt!(v, $name, path, "loaded value is not equal", format!("{:?}", e)),
                                Err(er) => fail_rt!(v, $name, path, "round trip failed", er),
                            }
                        }
                    }};
                }
                match which % 3 {
                    0 => en!(order_of(*x), ADOrder, "ADOrder"),
                    1 => en!(modifier_of(*x), Modifier, "Modifier"),
                    _ => en!(convention_of(*x), Convention, "Convention"),
                }
            }
        }
    }
}

impl Property for C16 {
    type Case = Case;
    fn id(&self) -> &'static str {
        "C16"
    }
    fn check(&self, c: &Case) -> Verdict {
        let mut v = Verdict::new();
        match catch(|| {
            let mut vv = Verdict::new();
            self.run(&c.obj, &mut vv);
            vv
        }) {
            Ok(vv) => v = vv,
            Err(p) => v.fail(format!("panic while saving or loading | {}", p.site()), p.message),
        }
        v
    }
    fn plan(&self, tier: Tier) -> Vec<Stage<Case>> {
        vec![Stage::random("objects", tier.pick(40_000, 3_000_000), || obj().prop_map(|obj| Case { obj }))]
    }
    fn rule(&self) -> String {
        "random objects of every serialisable type: Dual / Dual2 (any finite doubles incl. raw bit patterns, subnormals, 17-digit values; 0-6 names incl. unicode and characters that need JSON escaping), plain / combined / named calendars and the calendar container, curves of all five rules plus the null interpolator x derivative orders 0/1/2 x three calendar kinds (generic struct and the Python-facing wrapper), FX markets (float / first-order / second-order quotes, with and without settlement - a date or a date-time down to the nanosecond -, any base, saved in any derivative order, freshly built or after 1-2 quote updates), splines of the three element types with and without coefficients, FX rates, currencies, the number container and the small enums; pairs of wide numbers (16-40 variables, same names in another order) loaded one right after the other; calendar documents with the holiday list in another order; each through every path that exists for it: direct JSON (JSON trait or serde_json), the tagged from_json entry point (hook), bincode. Oracle: load(save(x)) == x with the type's own equality AND a per-type query set answered bit-identically (values, by-name arrays, business/settlement days around every holiday, curve look-ups and index values, all n*n rates, spline values); named calendars must serialise to their name only and FX markets to quotes + currencies only; FX markets are compared with both sides at first order and their rates must agree (1e-12) in the saved state. Non-trivial: the object holds a double needing >= 16 significant digits, a name needing escaping, or is a type rebuilt on loading.".into()
    }
    fn floors(&self, tier: Tier) -> Vec<Floor> {
        let m = tier.pick(300u64, 10_000);
        ["type:Dual", "type:Dual2", "type:Cal", "type:UnionCal", "type:NamedCal", "type:CalType", "type:CurveDF", "type:Curve(wrapper)", "type:FXRates", "type:PPSplineF64", "type:PPSplineDual", "type:PPSplineDual2", "type:FXRate", "type:Ccy", "type:Number", "type:enums", "floats:17-digit", "curve:order0", "curve:order1", "curve:order2", "fx:dual-quotes", "fx:saved-in-order0", "fx:saved-in-order2", "fx:updated-before-saving", "fx:sub-second-settlement", "type:wide-pair", "document:holidays-in-another-order", "spline:unsolved"]
            .iter()
            .map(|l| Floor { label: l, min: m })
            .collect()
    }
    fn assumptions(&self) -> Vec<String> {
        vec![
            "NaN and infinities are excluded ('finite contents'); -0.0 is compared through the types' own == and bit patterns".into(),
            "contents that take part in arithmetic when the query set is evaluated (FX quotes and their derivative coefficients, spline coefficients, curve node values) are kept in ranges where no overflow to NaN can occur, but keep full random mantissas".into(),
        ]
    }
}
