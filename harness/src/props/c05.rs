//! C05 - Business-day arithmetic counts exactly the business days it says it does.

use crate::engine::*;
use crate::gen::cal::*;
use crate::model::civil;
use crate::model::roll::Preds;
use crate::props::c04::{modifier_of, MOD_NAMES};
use crate::util::*;
use proptest::prelude::*;
use rateslib::calendars::{CalType, DateRoll};
use serde::{Deserialize, Serialize};

#[derive(Clone, Debug, Serialize, Deserialize)]
pub enum Op {
    AddBus { n: i8, settlement: bool },
    Lag { n: i8, settlement: bool },
    Range { len: i64 },
    AddDays { n: i8, modifier: u8, settlement: bool },
}

#[derive(Clone, Debug, Serialize, Deserialize)]
pub struct Case {
    pub cal: AnyCal,
    pub day: i64,
    pub op: Op,
}

pub struct C05;

/// Day counts over the whole signed 8-bit range with weight on the edges.
pub fn day_count() -> impl Strategy<Value = i8> {
    prop_oneof![
        4 => any::<i8>(),
        3 => -12i8..=12,
        1 => prop::sample::select(vec![0i8, 1, -1, 2, -2, 126, 127, -127, -128]),
    ]
}

fn case_strategy() -> impl Strategy<Value = Case> {
    {
        let op = prop_oneof![
            4 => (day_count(), any::<bool>()).prop_map(|(n, settlement)| Op::AddBus { n, settlement }),
            3 => (day_count(), any::<bool>()).prop_map(|(n, settlement)| Op::Lag { n, settlement }),
            1 => (0i64..400).prop_map(|len| Op::Range { len }),
            2 => (day_count(), 0u8..5, any::<bool>()).prop_map(|(n, modifier, settlement)| Op::AddDays { n, modifier, settlement }),
        ];
        (base_day(), any_cal_rel(200), -20i64..=20, op).prop_map(|(b, cal, off, op)| Case {
            cal: cal.shift(b),
            day: b + off,
            op,
        })
    }
}

fn holidays_crossed(cal: &CalType, a: i64, b: i64) -> usize {
    let (lo, hi) = (a.min(b), a.max(b));
    (lo..=hi).filter(|z| !cal.is_bus_day(&day_to_ndt(*z))).count()
}

impl C05 {
    fn check_with(&self, c: &Case, cal: &CalType, v: &mut Verdict) {
        let bus = |z: i64| cal.is_bus_day(&day_to_ndt(z));
        let settle = |z: i64| cal.is_settlement(&day_to_ndt(z));
        let preds = Preds {
            bus: &bus,
            settle: &settle,
        };
        let date = day_to_ndt(c.day);
        let start_bus = bus(c.day);
        v.label(c.cal.kind());
        // the predicates the counts rely on mean what the combination rule says (from the parts)
        for z in c.day - 7..=c.day + 7 {
            let (mb, ms) = c.cal.model_eligibility(z);
            if bus(z) != mb || settle(z) != ms {
                v.fail(
                    "eligibility | is_bus_day / is_settlement differ from the definition by parts",
                    format!("{}: is_bus_day {} (by parts {}), is_settlement {} (by parts {})", fmt_day(z), bus(z), mb, settle(z), ms),
                );
                return;
            }
        }
        macro_rules! walk {
            ($e:expr) => {
                match $e {
                    Ok(x) => x,
                    Err(_) => {
                        v.fail("generator | walk cap exceeded", "no eligible day within the cap");
                        return;
                    }
                }
            };
        }
        match &c.op {
            Op::AddBus { n, settlement } => {
                v.label("op:add_bus_days");
                let n64 = *n as i64;
                let got = match catch(|| cal.add_bus_days(&date, *n, *settlement)) {
                    Ok(g) => g,
                    Err(p) => {
                        v.fail(format!("add_bus_days | panic | {}", p.site()), format!("add_bus_days({}, {}, {}) panicked: {}", fmt_day(c.day), n, settlement, p.message));
                        return;
                    }
                };
                if !start_bus {
                    v.label("start:non-business");
                    v.nt(true);
                    if got.is_ok() {
                        v.fail("add_bus_days | non-business start accepted", format!("{} is not a business day but add_bus_days returned {}", fmt_day(c.day), fmt_ndt(got.as_ref().unwrap())));
                    }
                    return;
                }
                let got = match got {
                    Ok(g) => g,
                    Err(_) => {
                        v.fail("add_bus_days | business start rejected", format!("{} is a business day but add_bus_days({}) returned an error", fmt_day(c.day), n));
                        return;
                    }
                };
                let counted = walk!(preds.nth_bus(c.day, n64));
                let expected = walk!(preds.add_bus(c.day, n64, *settlement));
                let crossed = holidays_crossed(cal, c.day, expected).saturating_sub(0);
                v.nt(n64.abs() >= 2 && crossed >= 1);
                v.label_if(*n == 127 || *n == -128 || *n == -127, "n:extreme");
                v.label_if(*n == 0, "n:zero");
                v.label_if(*n < 0, "n:negative");
                v.label_if(*settlement && expected != counted, "settlement-adjusted");
                v.label_if(crossed >= 5, "crossed>=5");
                if ndt_to_day(&got) != (expected, 0) {
                    v.fail(
                        "add_bus_days | wrong date",
                        format!("add_bus_days({}, {}, settlement={}) = {} but counting business days gives {} (then settlement roll: {})", fmt_day(c.day), n, settlement, fmt_ndt(&got), fmt_day(counted), fmt_day(expected)),
                    );
                    return;
                }
                // inverse law without settlement
                if !*settlement && *n != i8::MIN {
                    match catch(|| cal.add_bus_days(&got, -*n, false)) {
                        Ok(Ok(back)) if back == date => {}
                        Ok(other) => {
                            v.fail("add_bus_days | inverse law", format!("add(add({}, {}), {}) = {:?}", fmt_day(c.day), n, -*n, other.map(|d| fmt_ndt(&d)).map_err(|_| "Err")));
                        }
                        Err(p) => v.fail(format!("add_bus_days | panic | {}", p.site()), p.message),
                    }
                }
            }
            Op::Lag { n, settlement } => {
                v.label("op:lag");
                let n64 = *n as i64;
                let got = match catch(|| cal.lag(&date, *n, *settlement)) {
                    Ok(g) => g,
                    Err(p) => {
                        v.fail(format!("lag | panic | {}", p.site()), format!("lag({}, {}, {}) panicked: {}", fmt_day(c.day), n, settlement, p.message));
                        return;
                    }
                };
                let gz = ndt_to_day(&got);
                v.label_if(!start_bus, "start:non-business");
                v.label_if(*n == 127 || *n == -128 || *n == -127, "n:extreme");
                v.label_if(*n == 0, "n:zero");
                let mut accepted: Vec<i64> = Vec::new();
                if start_bus {
                    accepted.push(walk!(preds.add_bus(c.day, n64, *settlement)));
                } else if n64 == 0 {
                    // documented: "a non-business day will be rolled forwards". Whether that roll
                    // honours settlement is not decided by the property or the docstring: accept
                    // the first business day and the first settleable business day.
                    accepted.push(walk!(preds.nearest(c.day, 1, false)));
                    accepted.push(walk!(preds.nearest(c.day, 1, *settlement)));
                } else {
                    // |n|-th business day strictly after/before the date, then settlement roll
                    let d = walk!(preds.nth_bus(c.day, n64));
                    accepted.push(walk!(preds.nearest(d, if n64 > 0 { 1 } else { -1 }, *settlement)));
                }
                let crossed = holidays_crossed(cal, c.day, accepted[0]);
                v.nt(n64.abs() >= 2 && crossed >= 1);
                v.label_if(crossed >= 5, "crossed>=5");
                if gz.1 != 0 || !accepted.contains(&gz.0) {
                    v.fail(
                        if start_bus { "lag | wrong date | business start" } else { "lag | wrong date | non-business start" },
                        format!("lag({}, {}, settlement={}) = {} but the count model gives {}", fmt_day(c.day), n, settlement, fmt_ndt(&got), accepted.iter().map(|d| fmt_day(*d)).collect::<Vec<_>>().join(" or ")),
                    );
                }
            }
            Op::Range { len } => {
                v.label("op:bus_date_range");
                let end = c.day + len;
                let got = match catch(|| cal.bus_date_range(&date, &day_to_ndt(end))) {
                    Ok(g) => g,
                    Err(p) => {
                        v.fail(format!("bus_date_range | panic | {}", p.site()), p.message);
                        return;
                    }
                };
                let ok_ends = start_bus && bus(end);
                v.label_if(!ok_ends, "range:bad-end");
                match got {
                    Err(_) => {
                        v.nt(true);
                        if ok_ends {
                            v.fail("bus_date_range | valid ends rejected", format!("[{}, {}] are business days", fmt_day(c.day), fmt_day(end)));
                        }
                    }
                    Ok(list) => {
                        if !ok_ends {
                            v.fail("bus_date_range | non-business end accepted", format!("[{}, {}]", fmt_day(c.day), fmt_day(end)));
                            return;
                        }
                        let expected: Vec<i64> = (c.day..=end).filter(|z| bus(*z)).collect();
                        v.nt(expected.len() as i64 != len + 1 && expected.len() >= 3);
                        let got_days: Vec<(i64, i64)> = list.iter().map(ndt_to_day).collect();
                        if got_days != expected.iter().map(|z| (*z, 0)).collect::<Vec<_>>() {
                            let first_diff = expected.iter().zip(got_days.iter()).position(|(a, b)| (*a, 0) != *b);
                            v.fail(
                                "bus_date_range | wrong list",
                                format!("range [{}, {}]: expected {} business days, got {}; first difference at index {:?}", fmt_day(c.day), fmt_day(end), expected.len(), got_days.len(), first_diff),
                            );
                        }
                    }
                }
            }
            Op::AddDays { n, modifier, settlement } => {
                v.label("op:add_days");
                let target = c.day + *n as i64;
                let expected = walk!(preds.roll(target, *modifier, *settlement));
                let got = match catch(|| cal.add_days(&date, *n, &modifier_of(*modifier), *settlement)) {
                    Ok(g) => g,
                    Err(p) => {
                        v.fail(format!("add_days | panic | {}", p.site()), format!("add_days({}, {}, {}, {}) panicked: {}", fmt_day(c.day), n, MOD_NAMES[*modifier as usize], settlement, p.message));
                        return;
                    }
                };
                v.nt(*modifier != 0 && expected != target);
                v.label_if(*n == 127 || *n == -128 || *n == -127, "n:extreme");
                v.label_if(*n < 0, "n:negative");
                if ndt_to_day(&got) != (expected, 0) {
                    v.fail(
                        "add_days | wrong date",
                        format!("add_days({}, {}, {}, settlement={}) = {} but {} + {} days adjusted by a day-by-day walk is {}", fmt_day(c.day), n, MOD_NAMES[*modifier as usize], settlement, fmt_ndt(&got), fmt_day(c.day), n, fmt_day(expected)),
                    );
                }
            }
        }
    }
}

impl Property for C05 {
    type Case = Case;
    fn id(&self) -> &'static str {
        "C05"
    }
    fn check(&self, c: &Case) -> Verdict {
        let mut v = Verdict::new();
        let cal = c.cal.build_cached();
        self.check_with(c, &cal, &mut v);
        v
    }
    fn plan(&self, tier: Tier) -> Vec<Stage<Case>> {
        let mut plan = vec![Stage::random("random", tier.pick(300_000, 10_000_000), case_strategy)];
        // all 256 day counts x both flags x the three counted operations on sampled
        // (built-in calendar, date) pairs: deterministic enumeration
        let ndates = tier.pick(6usize, 150);
        let names: Vec<&'static str> = vec!["nyc", "tgt", "ldn,tgt|nyc", "tyo|fed", "mum", "stk,osl"];
        plan.push(Stage::enumerate("all-256-counts", false, true, move |k, nshards| {
            let mut cases = Vec::new();
            let lo = civil::days_from_civil(1971, 6, 1);
            let span = civil::days_from_civil(2199, 6, 1) - lo;
            let mut idx = 0usize;
            for (ci, name) in names.iter().enumerate() {
                for j in 0..ndates {
                    // deterministic spread of dates, plus year ends
                    let day = if j % 3 == 2 {
                        civil::days_from_civil(1975 + ((j * 37 + ci * 11) % 220) as i64, 12, 24 + (j % 8) as u32)
                    } else {
                        lo + ((j as i64 * 7919 + ci as i64 * 104729) * 613) % span
                    };
                    idx += 1;
                    if idx % nshards != k {
                        continue;
                    }
                    for n in i8::MIN..=i8::MAX {
                        for s in [false, true] {
                            cases.push(Case { cal: AnyCal::Named(name.to_string()), day, op: Op::AddBus { n, settlement: s } });
                            cases.push(Case { cal: AnyCal::Named(name.to_string()), day, op: Op::Lag { n, settlement: s } });
                            cases.push(Case { cal: AnyCal::Named(name.to_string()), day, op: Op::AddDays { n, modifier: (n as u8) % 5, settlement: s } });
                        }
                    }
                }
            }
            Box::new(cases.into_iter())
        }));
        plan
    }
    fn rule(&self) -> String {
        "random stage: (calendar as in C04 with holidays spread over +-270 days, start date both business and non-business, operation in {add_bus_days, lag, bus_date_range, add_days}, day count over the whole i8 range weighted to 0, +-1, +-2, +-127, -128, settlement flag); enumeration stage: all 256 day counts x both flags x {add_bus_days, lag, add_days} on sampled (built-in calendar, date) pairs. Oracle: count model by day-by-day walk over the object's own predicates, inverse law, error contract for non-business starts. Non-trivial: |n| >= 2 and at least one non-business day crossed (add/lag), a range containing non-business days, an add_days whose target needed adjustment, or an error-contract case.".into()
    }
    fn floors(&self, tier: Tier) -> Vec<Floor> {
        let n = tier.pick(300_000u64, 10_000_000);
        vec![
            Floor { label: "n:extreme", min: n / 100 },
            Floor { label: "settlement-adjusted", min: n / 200 },
            Floor { label: "crossed>=5", min: n / 20 },
            Floor { label: "start:non-business", min: n / 20 },
            Floor { label: "op:bus_date_range", min: n / 20 },
        ]
    }
    fn assumptions(&self) -> Vec<String> {
        vec![
            "is_bus_day of a plain calendar (a leaf) is ground truth for built-in parts (C07); the combination rule is re-derived from the parts on the fortnight around the start date".into(),
            "lag(non-business date, 0, settlement=true): the documentation promises only a forward roll; both the first business day and the first settleable business day are accepted".into(),
        ]
    }
}
