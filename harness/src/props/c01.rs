//! C01 - First-order automatic differentiation is exact.

use crate::engine::*;
use crate::model::adeval::*;
use crate::props::adcommon::*;
use crate::util::*;
use rateslib::dual::Dual;
use serde::{Deserialize, Serialize};

#[derive(Clone, Debug, Serialize, Deserialize)]
pub struct Case {
    pub program: Program,
}

pub struct C01;

/// does the (sanitised) program raise an exactly-zero base to a power?
pub fn has_zero_base_pow(e: &Expr, x: &[f64]) -> bool {
    match e {
        Expr::Var(_) | Expr::Const(_) => false,
        Expr::Pow(a, _, _) => eval_f64(a, x) == 0.0 || has_zero_base_pow(a, x),
        Expr::Neg(a, _) | Expr::Abs(a) | Expr::Exp(a) | Expr::Log(a) | Expr::NormCdf(a) | Expr::InvNormCdf(a) => has_zero_base_pow(a, x),
        Expr::Bin(_, _, l, r) => has_zero_base_pow(l, x) || has_zero_base_pow(r, x),
    }
}

pub fn fmt_vec(v: &[f64]) -> String {
    format!("[{}]", v.iter().map(|x| format!("{:.12e}", x)).collect::<Vec<_>>().join(", "))
}

/// reference self-check by central finite differences; Some(message) if the reference looks wrong
pub fn self_check(e: &Expr, x: &[f64], jet: &Jet, second: bool) -> Option<String> {
    // a finite difference carries rounding noise of about eps * |f| / h on top of its
    // truncation error; both are allowed for, so that only a wrong reference formula trips this
    let g = fd_gradient(e, x);
    for i in 0..x.len() {
        let h = 1e-6 * x[i].abs().max(1.0);
        // (+ truncation: where f' vanishes the difference quotient still sees h x f'')
        let tol = 2e-3 * (jet.gmag[i] + 1e-3) + 1e-13 * jet.vmag / h + 1e2 * h * jet.gl[i];
        if !((g[i] - jet.g[i]).abs() <= tol) {
            return Some(format!("reference gradient[{}] = {:e}, finite difference {:e} (tolerance {:e})", i, jet.g[i], g[i], tol));
        }
    }
    if second {
        let hm = fd_hessian(e, x);
        for i in 0..x.len() {
            let h = 1e-5 * x[i].abs().max(1.0);
            for k in 0..x.len() {
                // (+ truncation: at a point where the second derivative vanishes but the third does not
                // - a cube at an exactly-zero base - the difference quotient is off by about h x f''')
                let tol = 2e-3 * (jet.hmag[i][k] + 1e-3) + 1e-13 * jet.gmag[k] / h + 1e2 * h * (jet.hl[i][k] + jet.gl[i] + jet.gl[k]) + 10.0 * h * (1.0 + jet.gmag[i] + jet.gmag[k]);
                if !((hm[i][k] - jet.h[i][k]).abs() <= tol) {
                    return Some(format!("reference hessian[{}][{}] = {:e}, finite difference {:e} (tolerance {:e})", i, k, jet.h[i][k], hm[i][k], tol));
                }
            }
        }
    }
    None
}

impl Property for C01 {
    type Case = Case;
    fn id(&self) -> &'static str {
        "C01"
    }

    fn check(&self, c: &Case) -> Verdict {
        let mut v = Verdict::new();
        let p = &c.program;
        let x = p.xs();
        let n = x.len();
        let mut rewrites = 0;
        let e = sanitise(&p.expr, &x, &mut rewrites);
        let plain = eval_f64(&e, &x);
        let jet = eval_jet(&e, &x);
        if !plain.is_finite() || !jet.bounds_finite(false) {
            v.label("skipped:non-finite");
            return v;
        }
        v.label_if(rewrites > 0, "sanitised");
        v.label_if(has_zero_base_pow(&e, &x), "pow:zero-base");
        let ops = e.operators();
        let mut used = Vec::new();
        e.vars_used(&mut used);
        let nonzero = jet.g.iter().any(|g| *g != 0.0);
        let p_sane = Program { expr: e.clone(), ..p.clone() };

        // evaluate on Dual
        let mut hits = Hits::default();
        let res = catch(|| {
            let leaves = on_dual::leaves(&p_sane, false);
            on_dual::eval(&e, &leaves, false, &mut hits)
        });
        let d: Dual = match res {
            Ok(Val::D(d)) => d,
            Ok(Val::F(f)) => {
                // variable-free program: only the value can be compared
                v.label("variable-free");
                if !((f - plain).abs() <= jet.vtol(1e-12)) {
                    v.fail("value | variable-free program", format!("{} vs {}", f, plain));
                }
                return v;
            }
            Err(pn) => {
                v.fail(format!("panic | {}", pn.site()), pn.message);
                return v;
            }
        };
        let has_float_mix = hits.0.iter().any(|h| h.contains("f64"));
        v.nt(ops >= 2 && nonzero && (has_float_mix || used.len() >= 2));
        for h in &hits.0 {
            v.label(h);
        }
        v.label(intern(format!("depth:{}", e.depth().min(8))));
        v.label_if(p.tags.iter().any(|t| !matches!(t, Tagging::Own)), "tagging:padded-or-shared");

        // (1) value
        if !((d.real() - plain).abs() <= jet.vtol(1e-12)) {
            v.fail("value differs from plain float evaluation", format!("dual real = {:e}, f64 evaluation = {:e}", d.real(), plain));
            return v;
        }
        // (2) gradient
        let g = grad_by_name(&d, n);
        for i in 0..n {
            if !((g[i] - jet.g[i]).abs() <= jet.gtol(i, 1e-10)) {
                v.fail(
                    "gradient differs from the true partial derivative",
                    format!("d/d{}: dual {:e}, reference {:e} (scale {:e}); all: {} vs {}", NAMES[i], g[i], jet.g[i], jet.gmag[i], fmt_vec(&g), fmt_vec(&jet.g)),
                );
                return v;
            }
        }
        // (3) variables carried
        let names = var_names(&d);
        let allowed = p.all_tagged_names();
        let master = p.master_names();
        for nm in &names {
            if !allowed.contains(nm) && !master.contains(nm) {
                v.fail("result carries an unknown variable", nm.clone());
                return v;
            }
        }
        for i in 0..n {
            if jet.g[i] != 0.0 && jet.g[i].abs() > 1e-200 && !names.contains(&Program::name(i)) {
                v.fail("result lost a variable it depends on", format!("{} (reference derivative {:e})", NAMES[i], jet.g[i]));
                return v;
            }
        }
        // (4) metamorphic twin: constants promoted to variable-free duals
        let mut hits2 = Hits::default();
        match catch(|| {
            let leaves = on_dual::leaves(&p_sane, true);
            on_dual::eval(&e, &leaves, true, &mut hits2)
        }) {
            Ok(Val::D(t)) => {
                let gt = grad_by_name(&t, n);
                if !((t.real() - d.real()).abs() <= jet.vtol(1e-12)) || (0..n).any(|i| !((gt[i] - g[i]).abs() <= jet.gtol(i, 1e-11))) {
                    v.fail(
                        "float operand differs from promoted constant",
                        format!("with floats: {:e} {}; with constants promoted to duals: {:e} {}", d.real(), fmt_vec(&g), t.real(), fmt_vec(&gt)),
                    );
                    return v;
                }
            }
            Ok(Val::F(_)) => {}
            Err(pn) => {
                v.fail(format!("panic | promoted twin | {}", pn.site()), pn.message);
                return v;
            }
        }
        // reference self-check on a deterministic 2% sample
        if (plain.to_bits() >> 7) % 50 == 0 && x.iter().all(|xi| xi.abs() >= 0.1 && xi.abs() <= 10.0) {
            v.label("reference-self-checked");
            if let Some(m) = self_check(&e, &x, &jet, false) {
                v.fail("oracle-self-check | reference gradient disagrees with finite differences", m);
            }
        }
        v
    }

    fn plan(&self, tier: Tier) -> Vec<Stage<Case>> {
        use proptest::strategy::Strategy;
        vec![Stage::random("programs", tier.pick(1_200_000, 40_000_000), || program().prop_map(|program| Case { program }))]
    }

    fn rule(&self) -> String {
        "random expression programs (1-25 nodes, depth <= 6) over + - * / neg abs exp log norm_cdf inv_norm_cdf and real powers on 1-5 variables with values in +-[0.2,3]; every binary node carries one of the 4 ownership forms, constants sit on either side (bare f64 operands), leaves are tagged as own variable / padded permuted list / shared master list; a deterministic sanitiser keeps every intermediate inside the differentiable domain. Oracle: plain f64 evaluation for the value, an independent dense forward-mode evaluator for the gradient (tolerance 1e-10 x accumulated magnitude), variable-set containment, and the metamorphic twin with constants promoted to variable-free duals. Non-trivial: >= 2 operators, a non-zero gradient entry, and a float/dual mix or >= 2 variables used; distinct by program.".into()
    }

    fn floors(&self, tier: Tier) -> Vec<Floor> {
        let min = tier.pick(300u64, 5000);
        let mut f = Vec::new();
        for op in ["add", "sub", "mul", "div"] {
            for form in ["ref.ref", "own.ref", "ref.own", "own.own"] {
                for kinds in ["Dual.Dual", "Dual.f64", "f64.Dual"] {
                    f.push(Floor { label: intern(format!("bin:{}:{}:{}", op, form, kinds)), min });
                }
            }
        }
        for u in ["neg:ref:Dual", "neg:own:Dual", "abs:neg:Dual", "abs:pos:Dual", "exp:Dual", "log:Dual", "norm_cdf:Dual", "inv_norm_cdf:Dual", "pow:ref:Dual", "pow:own:Dual"] {
            f.push(Floor { label: u, min });
        }
        f.push(Floor { label: "tagging:padded-or-shared", min: tier.pick(50_000, 500_000) });
        f.push(Floor { label: "reference-self-checked", min: tier.pick(1_000, 10_000) });
        f.push(Floor { label: "pow:zero-base", min: tier.pick(1_000, 15_000) });
        f
    }

    fn assumptions(&self) -> Vec<String> {
        vec![
            "points are kept differentiable by construction (no abs at 0, log/pow bases >= 0.05, denominators >= 0.05 in magnitude, inv_norm_cdf arguments in [0.02, 0.98], |values| <= 1e4)".into(),
            "Phi and its inverse are taken from the same float implementation for the value; their derivatives are computed independently from the density".into(),
            "tolerance 1e-10 relative to the magnitude accumulated by the same recurrences on absolute values; the reference itself is cross-checked by central finite differences on ~2% of cases".into(),
        ]
    }
}
