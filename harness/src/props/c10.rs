//! C10 - FX sensitivities are exact and the market state follows its update history.

use crate::engine::*;
use crate::props::c09::{ccy, model_valid, path_rate, tree_quotes, Quote, CCYS};
use crate::util::*;
use proptest::prelude::*;
use rateslib::dual::{ADOrder, Dual, Gradient1, Gradient2, Number};
use rateslib::fx::rates::{FXRate, FXRates};
use serde::{Deserialize, Serialize};
use std::collections::BTreeMap;

/// own variables of a quote given as a dual number: (name index, coefficient)
pub type OwnVars = Vec<(u8, Fl)>;

#[derive(Clone, Debug, Serialize, Deserialize)]
pub struct QuoteD {
    pub q: Quote,
    /// None: plain float quote (gets the variable fx_xxxyyy); Some: a dual number with these
    /// variables of its own
    pub own: Option<OwnVars>,
}

#[derive(Clone, Debug, Serialize, Deserialize)]
pub enum Op {
    /// new rates (and number kinds) for existing pairs, by index into the quote list
    Update(Vec<(u16, Fl, Option<OwnVars>)>),
    SetOrder(u8),
    /// an update naming a pair that is not quoted (possibly both currencies known)
    RejectUnknown { lhs: u8, rhs: u8, rate: Fl },
    /// an update naming a quoted pair the other way round
    RejectReversed { idx: u16, rate: Fl },
    /// a good quote together with an unknown pair
    RejectMix { good: u16, rate: Fl, lhs: u8, rhs: u8 },
    /// a quoted pair with a settlement date that differs from the market's (another date, or a date
    /// against none): refused unless it is the market's only quote
    RejectSettlement { idx: u16, rate: Fl, shift: i8 },
}

#[derive(Clone, Debug, Serialize, Deserialize)]
pub struct Case {
    pub quotes: Vec<QuoteD>,
    pub base: Option<u16>,
    pub ops: Vec<Op>,
}

pub struct C10;

fn own_name(i: u8) -> String {
    format!("v{}", i % 6)
}

fn number_of(rate: f64, own: &Option<OwnVars>) -> Number {
    match own {
        None => Number::F64(rate),
        Some(vs) => {
            let mut names = Vec::new();
            let mut coefs = Vec::new();
            for (n, c) in vs {
                let nm = own_name(*n);
                if !names.contains(&nm) {
                    names.push(nm);
                    coefs.push(c.0);
                }
            }
            Number::Dual(if names.is_empty() { Dual::new(rate, vec![]) } else { Dual::try_new(rate, names, coefs).expect("own vars") })
        }
    }
}

fn fx_rate_of(qd: &QuoteD) -> FXRate {
    FXRate::try_new(CCYS[qd.q.lhs as usize % 12], CCYS[qd.q.rhs as usize % 12], number_of(qd.q.rate.0, &qd.own), qd.q.settle.map(day_to_ndt)).expect("fx rate")
}

fn pair_var(q: &Quote) -> String {
    format!("fx_{}{}", CCYS[q.lhs as usize % 12], CCYS[q.rhs as usize % 12])
}

/// gradient map of quote i: variable name -> d quote / d variable
fn quote_grad(qd: &QuoteD) -> BTreeMap<String, f64> {
    let mut m = BTreeMap::new();
    match &qd.own {
        None => {
            m.insert(pair_var(&qd.q), 1.0);
        }
        Some(vs) => {
            let mut seen = Vec::new();
            for (n, c) in vs {
                let nm = own_name(*n);
                if !seen.contains(&nm) {
                    seen.push(nm.clone());
                    m.insert(nm, c.0);
                }
            }
        }
    }
    m
}

fn own_vars() -> impl Strategy<Value = Option<OwnVars>> {
    proptest::option::weighted(0.25, proptest::collection::vec((0u8..6, coeff()), 0..3))
}

fn op() -> impl Strategy<Value = Op> {
    prop_oneof![
        5 => proptest::collection::vec((any::<u16>(), prop_oneof![4 => log_uniform(1e-3, 1e3), 1 => Just(Fl(0.0))], own_vars()), 1..4).prop_map(Op::Update),
        4 => (0u8..3).prop_map(Op::SetOrder),
        1 => (0u8..12, 0u8..12, log_uniform(1e-2, 1e2)).prop_map(|(lhs, rhs, rate)| Op::RejectUnknown { lhs, rhs, rate }),
        1 => (any::<u16>(), log_uniform(1e-2, 1e2)).prop_map(|(idx, rate)| Op::RejectReversed { idx, rate }),
        1 => (any::<u16>(), log_uniform(1e-2, 1e2), 0u8..12, 0u8..12).prop_map(|(good, rate, lhs, rhs)| Op::RejectMix { good, rate, lhs, rhs }),
        1 => (any::<u16>(), log_uniform(1e-2, 1e2), -3i8..=3).prop_map(|(idx, rate, shift)| Op::RejectSettlement { idx, rate, shift }),
    ]
}

fn case_strategy() -> impl Strategy<Value = Case> {
    (tree_quotes(), proptest::collection::vec(own_vars(), 11), proptest::option::weighted(0.7, any::<u16>()), proptest::collection::vec(op(), 0..13)).prop_map(|(mut quotes, owns, base, ops)| {
        quotes.truncate(7); // n <= 8 (a prefix of a shuffled tree may be a forest: then re-root below)
        // keep only a connected prefix so that the quotes still form a tree
        let mut keep: Vec<Quote> = Vec::new();
        let mut pending = quotes;
        loop {
            let before = keep.len();
            let mut rest = Vec::new();
            for q in pending {
                let connected = keep.is_empty() || keep.iter().any(|k| k.lhs == q.lhs || k.lhs == q.rhs || k.rhs == q.lhs || k.rhs == q.rhs);
                if connected {
                    keep.push(q);
                } else {
                    rest.push(q);
                }
            }
            pending = rest;
            if keep.len() == before || pending.is_empty() {
                break;
            }
        }
        let quotes = keep.into_iter().enumerate().map(|(i, q)| QuoteD { q, own: owns[i % owns.len()].clone() }).collect();
        Case { quotes, base, ops }
    })
}

struct Analytic {
    value: f64,
    /// magnitude scales for the tolerances: |C| * sum_i |G_i|/q_i and its square over |C|
    gscale: f64,
    hscale: f64,
    grad: BTreeMap<String, f64>,
    hess: BTreeMap<(String, String), f64>,
}

/// value, first and second sensitivities of rate(a, b) from the latest quotes
fn analytic(quotes: &[QuoteD], a: u8, b: u8) -> Analytic {
    let plain: Vec<Quote> = quotes.iter().map(|q| q.q.clone()).collect();
    let (c, path) = path_rate(&plain, a, b).expect("tree path");
    let mut grad: BTreeMap<String, f64> = BTreeMap::new();
    let mut hess: BTreeMap<(String, String), f64> = BTreeMap::new();
    let sign = |fwd: bool| if fwd { 1.0 } else { -1.0 };
    for (i, fi) in &path {
        let (qi, si, gi) = (quotes[*i].q.rate.0, sign(*fi), quote_grad(&quotes[*i]));
        for (name, dq) in &gi {
            *grad.entry(name.clone()).or_insert(0.0) += si * c / qi * dq;
        }
        for (j, fj) in &path {
            let (qj, sj, gj) = (quotes[*j].q.rate.0, sign(*fj), quote_grad(&quotes[*j]));
            let cij = if i == j { si * (si - 1.0) * c / (qi * qi) } else { si * sj * c / (qi * qj) };
            for (n1, d1) in &gi {
                for (n2, d2) in &gj {
                    *hess.entry((n1.clone(), n2.clone())).or_insert(0.0) += cij * d1 * d2;
                }
            }
        }
    }
    let mut acc = 0.0;
    for (i, _) in &path {
        let gi = quote_grad(&quotes[*i]);
        let gmax = gi.values().fold(1.0f64, |m, x| m.max(x.abs()));
        acc += gmax / quotes[*i].q.rate.0.abs();
    }
    Analytic { value: c, gscale: c.abs() * acc, hscale: c.abs() * acc * acc, grad, hess }
}

fn all_names(quotes: &[QuoteD]) -> Vec<String> {
    let mut v: Vec<String> = quotes.iter().map(|q| pair_var(&q.q)).collect();
    // also the reversed-pair spelling, which must never appear
    v.extend(quotes.iter().map(|q| format!("fx_{}{}", CCYS[q.q.rhs as usize % 12], CCYS[q.q.lhs as usize % 12])));
    v.extend((0..6).map(own_name));
    v
}

fn order_of(k: u8) -> ADOrder {
    match k % 3 {
        0 => ADOrder::Zero,
        1 => ADOrder::One,
        _ => ADOrder::Two,
    }
}

impl C10 {
    /// full comparison of the object with the model's latest quotes
    fn compare(&self, fxr: &FXRates, quotes: &[QuoteD], nodes: &[u8], expect_order: Option<u8>, v: &mut Verdict, step: &str) -> Option<Vec<Vec<u64>>> {
        let names = all_names(quotes);
        let mut bits = vec![vec![0u64; nodes.len()]; nodes.len()];
        for (i, a) in nodes.iter().enumerate() {
            for (j, b) in nodes.iter().enumerate() {
                let r = match fxr.rate(&ccy(*a), &ccy(*b)) {
                    Some(r) => r,
                    None => {
                        v.fail("a cross rate is not available", format!("{}: {}{}", step, CCYS[*a as usize], CCYS[*b as usize]));
                        return None;
                    }
                };
                let an = analytic(quotes, *a, *b);
                let value = f64::from(&r);
                bits[i][j] = value.to_bits();
                let pair = format!("{}{}", CCYS[*a as usize], CCYS[*b as usize]);
                if !close(value, an.value, 1e-12, 0.0) {
                    v.fail("rate differs from the path product of the latest quotes", format!("{}: {} = {:e}, latest quotes give {:e}", step, pair, value, an.value));
                    return None;
                }
                let kind = match &r {
                    Number::F64(_) => 0u8,
                    Number::Dual(_) => 1,
                    Number::Dual2(_) => 2,
                };
                if let Some(o) = expect_order {
                    if kind != o % 3 {
                        v.fail("rates are not of the derivative order that was switched on", format!("{}: order {} requested, {} returned a number of order {}", step, o % 3, pair, kind));
                        return None;
                    }
                }
                let g1: Option<Vec<f64>> = match &r {
                    Number::F64(_) => None,
                    Number::Dual(d) => Some(d.gradient1(names.clone()).to_vec()),
                    Number::Dual2(d) => Some(d.gradient1(names.clone()).to_vec()),
                };
                if let Some(g) = g1 {
                    v.label("sensitivity:first-order-checked");
                    for (k, nm) in names.iter().enumerate() {
                        let exp = *an.grad.get(nm).unwrap_or(&0.0);
                        if !((g[k] - exp).abs() <= 1e-10 * an.gscale.max(exp.abs()) + 1e-300) {
                            v.fail(
                                if exp == 0.0 { "a sensitivity is reported to a quote that is not on the path (or under a wrong variable name)" } else { "first-order sensitivity is not +-cross/quote under fx_xxxyyy" },
                                format!("{}: d {} / d {} = {:e}, expected {:e}", step, pair, nm, g[k], exp),
                            );
                            return None;
                        }
                    }
                    if an.grad.values().any(|x| *x < 0.0) {
                        v.label("sensitivity:inverted-quote");
                    }
                }
                if let Number::Dual2(d) = &r {
                    v.label("sensitivity:second-order-checked");
                    let h = d.gradient2(names.clone());
                    for (k1, n1) in names.iter().enumerate() {
                        for (k2, n2) in names.iter().enumerate() {
                            let exp = *an.hess.get(&(n1.clone(), n2.clone())).unwrap_or(&0.0);
                            if !((h[[k1, k2]] - exp).abs() <= 1e-10 * an.hscale.max(exp.abs()) + 1e-300) {
                                v.fail("second-order sensitivity is not the matching second derivative", format!("{}: d2 {} / d {} d {} = {:e}, expected {:e}", step, pair, n1, n2, h[[k1, k2]], exp));
                                return None;
                            }
                        }
                    }
                }
            }
        }
        Some(bits)
    }
}

impl Property for C10 {
    type Case = Case;
    fn id(&self) -> &'static str {
        "C10"
    }

    fn check(&self, c: &Case) -> Verdict {
        let mut v = Verdict::new();
        let plain: Vec<Quote> = c.quotes.iter().map(|q| q.q.clone()).collect();
        if plain.is_empty() {
            return v;
        }
        let nodes0 = model_valid(&plain, None).1;
        let base = c.base.map(|p| nodes0[pick(p, nodes0.len())]);
        let (valid, nodes, _) = model_valid(&plain, base);
        if !valid {
            v.fail("generator | initial market is not a tree", format!("{:?}", plain));
            return v;
        }
        let mut model: Vec<QuoteD> = c.quotes.clone();
        let mut fxr = match catch(|| FXRates::try_new(model.iter().map(fx_rate_of).collect(), base.map(ccy))) {
            Ok(Ok(f)) => f,
            Ok(Err(_)) => {
                v.fail("valid market rejected", format!("{:?}", c.quotes));
                return v;
            }
            Err(p) => {
                v.fail(format!("FXRates::try_new | panic | {}", p.site()), p.message);
                return v;
            }
        };
        v.label_if(c.quotes.iter().any(|q| q.own.is_some()), "quotes:some-dual");
        let base_label = nodes[0];
        let mut order: Option<u8> = Some(1); // a new market starts at first order
        if self.compare(&fxr, &model, &nodes, order, &mut v, "after construction").is_none() {
            return v;
        }
        let (mut n_updates_after_setorder, mut n_rejected, mut seen_setorder) = (0, 0, false);
        for (step_no, op) in c.ops.iter().enumerate() {
            let step = format!("step {} {:?}", step_no, op);
            let before_bits = match self.compare(&fxr, &model, &nodes, None, &mut v, &step) {
                Some(b) => b,
                None => return v,
            };
            match op {
                Op::Update(items) => {
                    v.label("op:update");
                    let mut newq: Vec<FXRate> = Vec::new();
                    let mut model2 = model.clone();
                    for (idx, rate, own) in items {
                        let k = pick(*idx, model.len());
                        let mut qd = model[k].clone();
                        // a rate of 0 stands for "re-quote at the current value" (only the number
                        // kind / the own variables of the quote change)
                        if rate.0 != 0.0 {
                            qd.q.rate = *rate;
                        } else {
                            v.label("op:update-same-value");
                            v.label_if(qd.own.is_some() != own.is_some(), "op:update-same-value-other-kind");
                        }
                        qd.own = own.clone();
                        newq.push(fx_rate_of(&qd));
                        model2[k] = qd; // later entries for the same pair win
                    }
                    match catch(|| fxr.update(newq)) {
                        Ok(Ok(())) => {
                            model = model2;
                            order = None; // the order after an update is not asserted
                            if seen_setorder {
                                n_updates_after_setorder += 1;
                            }
                        }
                        Ok(Err(_)) => {
                            v.fail("update of existing pairs refused", step.clone());
                            return v;
                        }
                        Err(p) => {
                            v.fail(format!("update | panic | {}", p.site()), p.message);
                            return v;
                        }
                    }
                    // a market built directly from the latest quotes returns the same rates
                    match catch(|| FXRates::try_new(model.iter().map(fx_rate_of).collect(), Some(ccy(base_label)))) {
                        Ok(Ok(fresh)) => {
                            for a in &nodes {
                                for b in &nodes {
                                    let (x, y) = (fxr.rate(&ccy(*a), &ccy(*b)).map(|r| f64::from(&r)), fresh.rate(&ccy(*a), &ccy(*b)).map(|r| f64::from(&r)));
                                    if x.is_none() || y.is_none() || !close(x.unwrap(), y.unwrap(), 1e-12, 0.0) {
                                        v.fail("rates after updates differ from a market built directly from the latest quotes", format!("{}: {}{}: {:?} vs {:?}", step, CCYS[*a as usize], CCYS[*b as usize], x, y));
                                        return v;
                                    }
                                }
                            }
                        }
                        _ => {
                            v.fail("a market cannot be built directly from the latest quotes", step.clone());
                            return v;
                        }
                    }
                }
                Op::SetOrder(k) => {
                    v.label(intern(format!("op:set_order:{}", k % 3)));
                    seen_setorder = true;
                    match catch(|| fxr.set_ad_order(order_of(*k))) {
                        Ok(Ok(())) => {}
                        Ok(Err(_)) => {
                            v.fail("set_ad_order returned an error", step.clone());
                            return v;
                        }
                        Err(p) => {
                            v.fail(format!("set_ad_order | panic | {}", p.site()), p.message);
                            return v;
                        }
                    }
                    order = Some(*k % 3);
                    // switching derivative order never changes a value
                    for (i, a) in nodes.iter().enumerate() {
                        for (j, b) in nodes.iter().enumerate() {
                            let now = fxr.rate(&ccy(*a), &ccy(*b)).map(|r| f64::from(&r)).unwrap_or(f64::NAN);
                            let was = f64::from_bits(before_bits[i][j]);
                            let quoted = model.iter().any(|q| q.q.lhs % 12 == *a && q.q.rhs % 12 == *b);
                            let ok = if quoted || i == j { now.to_bits() == was.to_bits() } else { close(now, was, 1e-12, 0.0) };
                            if !ok {
                                v.fail("switching derivative order changed a rate's value", format!("{}: {}{} was {:e}, now {:e}", step, CCYS[*a as usize], CCYS[*b as usize], was, now));
                                return v;
                            }
                        }
                    }
                }
                Op::RejectUnknown { .. } | Op::RejectReversed { .. } | Op::RejectMix { .. } | Op::RejectSettlement { .. } => {
                    let settle = model[0].q.settle;
                    let mk = |lhs: u8, rhs: u8, rate: f64| FXRate::try_new(CCYS[lhs as usize % 12], CCYS[rhs as usize % 12], Number::F64(rate), settle.map(day_to_ndt));
                    let quoted = |l: u8, r: u8| model.iter().any(|q| q.q.lhs % 12 == l % 12 && q.q.rhs % 12 == r % 12);
                    let upd: Vec<FXRate> = match op {
                        Op::RejectUnknown { lhs, rhs, rate } => {
                            if lhs % 12 == rhs % 12 || quoted(*lhs, *rhs) {
                                continue;
                            }
                            v.label("op:reject-unknown-pair");
                            vec![mk(*lhs, *rhs, rate.0).expect("pair")]
                        }
                        Op::RejectReversed { idx, rate } => {
                            let q = &model[pick(*idx, model.len())].q;
                            if quoted(q.rhs, q.lhs) {
                                continue;
                            }
                            v.label("op:reject-reversed-pair");
                            vec![mk(q.rhs, q.lhs, rate.0).expect("pair")]
                        }
                        Op::RejectMix { good, rate, lhs, rhs } => {
                            if lhs % 12 == rhs % 12 || quoted(*lhs, *rhs) {
                                continue;
                            }
                            v.label("op:reject-good+unknown");
                            let q = &model[pick(*good, model.len())].q;
                            vec![mk(q.lhs, q.rhs, rate.0).expect("pair"), mk(*lhs, *rhs, rate.0).expect("pair")]
                        }
                        Op::RejectSettlement { idx, rate, shift } => {
                            if model.len() < 2 {
                                continue; // the only quote of a market may change its settlement
                            }
                            v.label("op:reject-other-settlement");
                            let q = &model[pick(*idx, model.len())].q;
                            let other = match (settle, *shift) {
                                (Some(_), 0) => None,
                                (Some(d), s) => Some(d + s as i64),
                                (None, s) => Some(19_000 + s as i64),
                            };
                            vec![FXRate::try_new(CCYS[q.lhs as usize % 12], CCYS[q.rhs as usize % 12], Number::F64(rate.0), other.map(day_to_ndt)).expect("pair")]
                        }
                        _ => unreachable!(),
                    };
                    n_rejected += 1;
                    let snapshot = fxr.clone();
                    match catch(|| fxr.update(upd)) {
                        Ok(Err(_)) => {}
                        Ok(Ok(())) => {
                            v.fail(if matches!(op, Op::RejectSettlement { .. }) { "an update with a settlement date other than the market's was accepted" } else { "an update naming an unknown pair was accepted" }, step.clone());
                            return v;
                        }
                        Err(p) => {
                            v.fail(format!("update | panic | {}", p.site()), p.message);
                            return v;
                        }
                    }
                    let same = catch(|| fxr == snapshot).unwrap_or(false);
                    if !same {
                        v.fail("a refused update changed the object", step.clone());
                        return v;
                    }
                    for (i, a) in nodes.iter().enumerate() {
                        for (j, b) in nodes.iter().enumerate() {
                            let now = fxr.rate(&ccy(*a), &ccy(*b)).map(|r| f64::from(&r)).unwrap_or(f64::NAN);
                            if now.to_bits() != before_bits[i][j] {
                                v.fail("a refused update changed a rate", format!("{}: {}{}", step, CCYS[*a as usize], CCYS[*b as usize]));
                                return v;
                            }
                        }
                    }
                }
            }
            if self.compare(&fxr, &model, &nodes, order, &mut v, &format!("after {}", step)).is_none() {
                return v;
            }
        }
        v.nt(n_updates_after_setorder >= 1 && n_rejected >= 1);
        v.label(intern(format!("history-length:{}", c.ops.len().min(12))));
        v
    }

    fn plan(&self, tier: Tier) -> Vec<Stage<Case>> {
        vec![Stage::random("histories", tier.pick(25_000, 1_200_000), case_strategy)]
    }

    fn rule(&self) -> String {
        "random valid markets (trees on 2-8 currencies as in C09; each quote a plain float or, 25%, a dual number with 0-2 variables of its own) and histories of 0-12 operations: update of 1-3 existing pairs (new rate - or, 20%, a re-quote at the current value - and number kind), set derivative order 0/1/2, refused updates (unknown pair, quoted pair reversed, good + unknown mix, a quoted pair with another settlement date); interpreted against a model holding the latest quotes, the whole history shrinks as one value. After construction and after EVERY step all n*n rates are compared with the path products of the latest quotes (1e-12), their first-order sensitivities BY NAME (fx_xxxyyy for float quotes, own variables for dual quotes, the reversed spelling and every off-path quote must be zero) with +-cross/quote and the chain rule (1e-10), and at order 2 the Hessian with the analytic second derivatives; after an update also with a market built directly from the latest quotes; a refused update must return an error, leave == true against a clone and every rate bit-identical; switching order must keep quoted pairs bit-identical and crosses to 1e-12 and return numbers of the requested order. Non-trivial: >= 1 successful update after an order switch and >= 1 refused update.".into()
    }

    fn floors(&self, tier: Tier) -> Vec<Floor> {
        let n = tier.pick(25_000u64, 1_200_000);
        vec![
            Floor { label: "op:update", min: n },
            Floor { label: "op:set_order:0", min: n / 4 },
            Floor { label: "op:set_order:2", min: n / 4 },
            Floor { label: "op:reject-unknown-pair", min: n / 10 },
            Floor { label: "op:reject-reversed-pair", min: n / 10 },
            Floor { label: "op:reject-good+unknown", min: n / 10 },
            Floor { label: "op:reject-other-settlement", min: n / 10 },
            Floor { label: "sensitivity:second-order-checked", min: n },
            Floor { label: "sensitivity:inverted-quote", min: n },
            Floor { label: "quotes:some-dual", min: n / 5 },
            Floor { label: "op:update-same-value-other-kind", min: n / 20 },
        ]
    }

    fn assumptions(&self) -> Vec<String> {
        vec![
            "the derivative order after an update is not asserted (the object rebuilds at its default first order; the property speaks only of rates)".into(),
            "quotes given as second-order numbers are not generated (the constructor documents them as unsupported input)".into(),
        ]
    }
}
