//! Shared by C01 and C02: the expression-program case type, its generator, and an interpreter
//! that evaluates a program on `Dual` / `Dual2`, dispatching every node to the exact trait
//! implementation named by its ownership form and float/dual operand mix.

use crate::engine::intern;
use crate::model::adeval::*;
use crate::util::*;
use num_traits::{Pow, Signed};
use proptest::prelude::*;
use rateslib::dual::{Dual, Dual2, Gradient1, Gradient2, MathFuncs, Vars};
use serde::{Deserialize, Serialize};

/// The pool of variable names. It contains two pairs that differ in letter case only (a/A, b/B):
/// names are case-sensitive identifiers.
pub const NAMES: [&str; 8] = ["a", "b", "A", "d", "e", "B", "g", "h"];

/// name of variable index i: the pool for i < 8, "w<i>" beyond it (wide variable lists)
pub fn name_of(i: u8) -> String {
    if (i as usize) < NAMES.len() {
        NAMES[i as usize].to_string()
    } else {
        format!("w{}", i)
    }
}
/// inverse of `name_of` (255 for a foreign name)
pub fn index_of(name: &str) -> u8 {
    if let Some(p) = NAMES.iter().position(|n| *n == name) {
        return p as u8;
    }
    name.strip_prefix('w').and_then(|d| d.parse::<u8>().ok()).filter(|i| *i as usize >= NAMES.len()).unwrap_or(255)
}

/// How the leaf for variable i is constructed.
#[derive(Clone, Debug, Serialize, Deserialize)]
pub enum Tagging {
    /// `T::new(x, [name])`
    Own,
    /// on a longer variable list (other names carried with zero derivative), own name at `pos`
    Padded { others: Vec<u8>, pos: u8 },
    /// on the shared master list (all names of the case, permuted), sharing its Arc
    Master,
}

#[derive(Clone, Debug, Serialize, Deserialize)]
pub struct Program {
    pub x: Vec<Fl>,
    pub tags: Vec<Tagging>,
    /// rotation applied to the master variable list
    pub master_rot: u8,
    pub expr: Expr,
}

impl Program {
    pub fn xs(&self) -> Vec<f64> {
        fls(&self.x)
    }
    pub fn n(&self) -> usize {
        self.x.len()
    }
    pub fn name(i: usize) -> String {
        NAMES[i].to_string()
    }
    /// names on the leaf of variable i, in stored order, and the coefficient vector
    pub fn leaf_layout(&self, i: usize) -> (Vec<String>, Vec<f64>) {
        match &self.tags[i] {
            Tagging::Own => (vec![Self::name(i)], vec![1.0]),
            Tagging::Padded { others, pos } => {
                let mut names: Vec<String> = Vec::new();
                for o in others {
                    let o = (*o as usize) % NAMES.len();
                    if o != i && !names.contains(&Self::name(o)) {
                        names.push(Self::name(o));
                    }
                }
                let p = (*pos as usize) % (names.len() + 1);
                names.insert(p, Self::name(i));
                let coeffs = names.iter().map(|n| if *n == Self::name(i) { 1.0 } else { 0.0 }).collect();
                (names, coeffs)
            }
            Tagging::Master => (vec![Self::name(i)], vec![1.0]),
        }
    }
    pub fn master_names(&self) -> Vec<String> {
        let n = self.n();
        let mut v: Vec<String> = (0..n).map(Self::name).collect();
        v.rotate_left((self.master_rot as usize) % n.max(1));
        v
    }
    /// every name that may legitimately appear on a result
    pub fn all_tagged_names(&self) -> Vec<String> {
        let mut v: Vec<String> = Vec::new();
        for i in 0..self.n() {
            for n in self.leaf_layout(i).0 {
                if !v.contains(&n) {
                    v.push(n);
                }
            }
        }
        v
    }
}

/// the same number with its derivative arrays stored back to front in memory
pub trait RevMem {
    fn reversed_memory(&self) -> Self;
}
impl RevMem for Dual {
    fn reversed_memory(&self) -> Self {
        let d1: Vec<f64> = self.dual().iter().rev().cloned().collect();
        Dual::clone_from(self, self.real(), ndarray::Array1::from_vec(d1).slice_move(ndarray::s![..;-1]))
    }
}
impl RevMem for Dual2 {
    fn reversed_memory(&self) -> Self {
        let d1: Vec<f64> = self.dual().iter().rev().cloned().collect();
        let n = d1.len();
        let d2: Vec<f64> = self.dual2().iter().cloned().collect::<Vec<_>>().into_iter().rev().collect();
        let a1 = ndarray::Array1::from_vec(d1).slice_move(ndarray::s![..;-1]);
        let a2 = ndarray::Array2::from_shape_vec((n, n), d2).expect("shape").slice_move(ndarray::s![..;-1, ..;-1]);
        Dual2::clone_from(self, self.real(), a1, a2)
    }
}

pub enum Val<T> {
    F(f64),
    D(T),
}

/// Per-program record of which trait implementations were exercised.
#[derive(Default)]
pub struct Hits(pub Vec<&'static str>);
impl Hits {
    fn hit(&mut self, s: String) {
        self.0.push(intern(s));
    }
}

macro_rules! interpreter {
    ($modname:ident, $T:ty, $tname:literal) => {
        pub mod $modname {
            use super::*;

            pub fn leaves(p: &Program, promote_consts: bool) -> Vec<$T> {
                let _ = promote_consts;
                let master: $T = <$T>::new(0.0, p.master_names());
                (0..p.n())
                    .map(|i| {
                        let (names, coeffs) = p.leaf_layout(i);
                        match &p.tags[i] {
                            Tagging::Own => <$T>::new(p.x[i].0, names),
                            // (padded leaves with the top bit of `pos` set hold their derivative arrays in
                            // reversed memory order - negative strides - as clone_from accepts them)
                            Tagging::Padded { pos, .. } => {
                                let d: $T = make_padded(p.x[i].0, names, coeffs);
                                if pos & 0x80 != 0 { d.reversed_memory() } else { d }
                            }
                            Tagging::Master => <$T>::new_from(&master, p.x[i].0, names),
                        }
                    })
                    .collect()
            }

            pub fn eval(e: &Expr, leaves: &[$T], promote: bool, hits: &mut Hits) -> Val<$T> {
                match e {
                    Expr::Var(i) => Val::D(leaves[*i].clone()),
                    Expr::Const(c) => {
                        if promote {
                            Val::D(<$T>::new(c.0, vec![]))
                        } else {
                            Val::F(c.0)
                        }
                    }
                    Expr::Neg(a, by_ref) => match eval(a, leaves, promote, hits) {
                        Val::F(f) => Val::F(-f),
                        Val::D(d) => {
                            hits.hit(format!("neg:{}:{}", if *by_ref { "ref" } else { "own" }, $tname));
                            Val::D(if *by_ref { -&d } else { -d })
                        }
                    },
                    Expr::Abs(a) => match eval(a, leaves, promote, hits) {
                        Val::F(f) => Val::F(f.abs()),
                        Val::D(d) => {
                            hits.hit(format!("abs:{}:{}", if d.real() < 0.0 { "neg" } else { "pos" }, $tname));
                            Val::D(Signed::abs(&d))
                        }
                    },
                    Expr::Exp(a) => match eval(a, leaves, promote, hits) {
                        Val::F(f) => Val::F(MathFuncs::exp(&f)),
                        Val::D(d) => {
                            hits.hit(format!("exp:{}", $tname));
                            Val::D(d.exp())
                        }
                    },
                    Expr::Log(a) => match eval(a, leaves, promote, hits) {
                        Val::F(f) => Val::F(MathFuncs::log(&f)),
                        Val::D(d) => {
                            hits.hit(format!("log:{}", $tname));
                            Val::D(d.log())
                        }
                    },
                    Expr::NormCdf(a) => match eval(a, leaves, promote, hits) {
                        Val::F(f) => Val::F(MathFuncs::norm_cdf(&f)),
                        Val::D(d) => {
                            hits.hit(format!("norm_cdf:{}", $tname));
                            Val::D(d.norm_cdf())
                        }
                    },
                    Expr::InvNormCdf(a) => match eval(a, leaves, promote, hits) {
                        Val::F(f) => Val::F(MathFuncs::inv_norm_cdf(&f)),
                        Val::D(d) => {
                            hits.hit(format!("inv_norm_cdf:{}", $tname));
                            Val::D(d.inv_norm_cdf())
                        }
                    },
                    Expr::Pow(a, p, by_ref) => match eval(a, leaves, promote, hits) {
                        Val::F(f) => Val::F(f.powf(p.0)),
                        Val::D(d) => {
                            hits.hit(format!("pow:{}:{}", if *by_ref { "ref" } else { "own" }, $tname));
                            Val::D(if *by_ref { (&d).pow(p.0) } else { d.pow(p.0) })
                        }
                    },
                    Expr::Bin(op, form, l, r) => {
                        let a = eval(l, leaves, promote, hits);
                        let b = eval(r, leaves, promote, hits);
                        let opn = match op { Op::Add => "add", Op::Sub => "sub", Op::Mul => "mul", Op::Div => "div" };
                        let fname = match form { Form::RefRef => "ref.ref", Form::OwnRef => "own.ref", Form::RefOwn => "ref.own", Form::OwnOwn => "own.own" };
                        macro_rules! apply {
                            ($a:expr, $b:expr) => {
                                match (op, form) {
                                    (Op::Add, Form::RefRef) => &$a + &$b,
                                    (Op::Add, Form::OwnRef) => $a + &$b,
                                    (Op::Add, Form::RefOwn) => &$a + $b,
                                    (Op::Add, Form::OwnOwn) => $a + $b,
                                    (Op::Sub, Form::RefRef) => &$a - &$b,
                                    (Op::Sub, Form::OwnRef) => $a - &$b,
                                    (Op::Sub, Form::RefOwn) => &$a - $b,
                                    (Op::Sub, Form::OwnOwn) => $a - $b,
                                    (Op::Mul, Form::RefRef) => &$a * &$b,
                                    (Op::Mul, Form::OwnRef) => $a * &$b,
                                    (Op::Mul, Form::RefOwn) => &$a * $b,
                                    (Op::Mul, Form::OwnOwn) => $a * $b,
                                    (Op::Div, Form::RefRef) => &$a / &$b,
                                    (Op::Div, Form::OwnRef) => $a / &$b,
                                    (Op::Div, Form::RefOwn) => &$a / $b,
                                    (Op::Div, Form::OwnOwn) => $a / $b,
                                }
                            };
                        }
                        match (a, b) {
                            (Val::F(x), Val::F(y)) => Val::F(match op { Op::Add => x + y, Op::Sub => x - y, Op::Mul => x * y, Op::Div => x / y }),
                            (Val::D(x), Val::D(y)) => {
                                hits.hit(format!("bin:{}:{}:{}.{}", opn, fname, $tname, $tname));
                                Val::D(apply!(x, y))
                            }
                            (Val::D(x), Val::F(y)) => {
                                hits.hit(format!("bin:{}:{}:{}.f64", opn, fname, $tname));
                                Val::D(apply!(x, y))
                            }
                            (Val::F(x), Val::D(y)) => {
                                hits.hit(format!("bin:{}:{}:f64.{}", opn, fname, $tname));
                                Val::D(apply!(x, y))
                            }
                        }
                    }
                }
            }
        }
    };
}

fn make_padded_dual(x: f64, names: Vec<String>, coeffs: Vec<f64>) -> Dual {
    Dual::try_new(x, names, coeffs).expect("padded leaf")
}
fn make_padded_dual2(x: f64, names: Vec<String>, coeffs: Vec<f64>) -> Dual2 {
    Dual2::try_new(x, names, coeffs, vec![]).expect("padded leaf")
}

trait MakePadded: Sized {
    fn mk(x: f64, names: Vec<String>, coeffs: Vec<f64>) -> Self;
}
impl MakePadded for Dual {
    fn mk(x: f64, names: Vec<String>, coeffs: Vec<f64>) -> Self {
        make_padded_dual(x, names, coeffs)
    }
}
impl MakePadded for Dual2 {
    fn mk(x: f64, names: Vec<String>, coeffs: Vec<f64>) -> Self {
        make_padded_dual2(x, names, coeffs)
    }
}
fn make_padded<T: MakePadded>(x: f64, names: Vec<String>, coeffs: Vec<f64>) -> T {
    T::mk(x, names, coeffs)
}

interpreter!(on_dual, Dual, "Dual");
interpreter!(on_dual2, Dual2, "Dual2");

/// first derivative of `d` with respect to NAMES[0..n], by name
pub fn grad_by_name<T: Gradient1>(d: &T, n: usize) -> Vec<f64> {
    d.gradient1((0..n).map(Program::name).collect()).to_vec()
}

pub fn var_names<T: Vars>(d: &T) -> Vec<String> {
    d.vars().iter().cloned().collect()
}

// ---------------------------------------------------------------------------------------------
// generator

fn exponent() -> impl Strategy<Value = Fl> {
    prop_oneof![
        3 => prop::sample::select(vec![-2.0, -1.0, -0.5, 0.0, 0.5, 1.0, 1.0, 2.0, 2.0, 3.0, 4.0]).prop_map(Fl),
        1 => (-3.0f64..3.0).prop_map(Fl),
    ]
}

fn form() -> impl Strategy<Value = Form> {
    prop::sample::select(vec![Form::RefRef, Form::OwnRef, Form::RefOwn, Form::OwnOwn])
}

fn op() -> impl Strategy<Value = Op> {
    prop::sample::select(vec![Op::Add, Op::Sub, Op::Mul, Op::Div])
}

/// Variable values: mostly moderate, sometimes exact small numbers including zero (x^2 at a
/// vanishing residual is an everyday case), sometimes spread over twelve orders of magnitude.
pub fn leaf_value() -> impl Strategy<Value = Fl> {
    prop_oneof![
        7 => moderate(),
        1 => prop::sample::select(vec![0.0, 0.0, 1.0, -1.0, 2.0, 0.5, -0.5]).prop_map(Fl),
        2 => (any::<bool>(), log_uniform(1e-6, 1e6)).prop_map(|(neg, v)| Fl(if neg { -v.0 } else { v.0 })),
    ]
}

pub fn expr(nvars: usize) -> impl Strategy<Value = Expr> {
    let leaf = prop_oneof![
        4 => (0..nvars).prop_map(Expr::Var),
        1 => prop_oneof![5 => moderate(), 1 => Just(Fl(0.0))].prop_map(Expr::Const),
    ];
    leaf.prop_recursive(6, 25, 2, |inner| {
        prop_oneof![
            8 => (op(), form(), inner.clone(), inner.clone()).prop_map(|(o, f, l, r)| Expr::Bin(o, f, Box::new(l), Box::new(r))),
            1 => (inner.clone(), any::<bool>()).prop_map(|(e, r)| Expr::Neg(Box::new(e), r)),
            1 => inner.clone().prop_map(|e| Expr::Abs(Box::new(e))),
            1 => inner.clone().prop_map(|e| Expr::Exp(Box::new(e))),
            1 => inner.clone().prop_map(|e| Expr::Log(Box::new(e))),
            1 => inner.clone().prop_map(|e| Expr::NormCdf(Box::new(e))),
            1 => inner.clone().prop_map(|e| Expr::InvNormCdf(Box::new(e))),
            2 => (inner.clone(), exponent(), any::<bool>()).prop_map(|(e, p, r)| Expr::Pow(Box::new(e), p, r)),
            // exact zeros at intermediate nodes: e - e, and powers of them
            1 => (inner.clone(), form()).prop_map(|(e, f)| Expr::Bin(Op::Sub, f, Box::new(e.clone()), Box::new(e))),
            1 => (inner, prop::sample::select(vec![0.0, 1.0, 2.0, 3.0]), any::<bool>(), form()).prop_map(|(e, p, r, f)| {
                Expr::Pow(Box::new(Expr::Bin(Op::Sub, f, Box::new(e.clone()), Box::new(e))), Fl(p), r)
            }),
        ]
    })
}

fn tagging() -> impl Strategy<Value = Tagging> {
    prop_oneof![
        3 => Just(Tagging::Own),
        2 => (proptest::collection::vec(0u8..8, 1..4), any::<u8>()).prop_map(|(others, pos)| Tagging::Padded { others, pos }),
        2 => Just(Tagging::Master),
    ]
}

pub fn program() -> impl Strategy<Value = Program> {
    // no flat-map (it would defeat shrinking): variables are drawn for the maximum count and
    // the expression's variable indices are folded onto the actual count
    (
        proptest::collection::vec(leaf_value(), 1..=5),
        proptest::collection::vec(tagging(), 5),
        any::<u8>(),
        expr(5),
    )
        .prop_map(|(x, mut tags, master_rot, expr)| {
            let n = x.len();
            tags.truncate(n);
            Program { x, tags, master_rot, expr: fold_vars(expr, n) }
        })
}

fn fold_vars(e: Expr, n: usize) -> Expr {
    let f = |b: Box<Expr>| Box::new(fold_vars(*b, n));
    match e {
        Expr::Var(i) => Expr::Var(i % n),
        Expr::Const(c) => Expr::Const(c),
        Expr::Neg(a, r) => Expr::Neg(f(a), r),
        Expr::Abs(a) => Expr::Abs(f(a)),
        Expr::Exp(a) => Expr::Exp(f(a)),
        Expr::Log(a) => Expr::Log(f(a)),
        Expr::NormCdf(a) => Expr::NormCdf(f(a)),
        Expr::InvNormCdf(a) => Expr::InvNormCdf(f(a)),
        Expr::Pow(a, p, r) => Expr::Pow(f(a), p, r),
        Expr::Bin(o, fm, l, r) => Expr::Bin(o, fm, f(l), f(r)),
    }
}
