//! Shared by C18 / C19 / C20: a serialisable description of a `Number` of any kind with
//! arbitrary derivative content, builders, and bit-exact comparison helpers.

use crate::props::adcommon::NAMES;
use crate::util::*;
use proptest::prelude::*;
use rateslib::dual::{Dual, Dual2, Gradient1, Gradient2, Number, Vars};
use serde::{Deserialize, Serialize};

#[derive(Clone, Debug, Serialize, Deserialize)]
pub struct NumSpec {
    /// 0 = float, 1 = first order, 2 = second order
    pub kind: u8,
    pub real: Fl,
    pub layout: Vec<u8>,
    pub d1: Vec<Fl>,
    /// upper triangle incl. diagonal over a 5x5 grid (symmetric storage)
    pub d2: Vec<Fl>,
}

impl NumSpec {
    pub fn n(&self) -> usize {
        self.layout.len()
    }
    pub fn names(&self) -> Vec<String> {
        self.layout.iter().map(|i| NAMES[*i as usize].to_string()).collect()
    }
    pub fn d1v(&self) -> Vec<f64> {
        (0..self.n()).map(|i| self.d1.get(i).map_or(0.0, |f| f.0)).collect()
    }
    pub fn d2m(&self) -> Vec<f64> {
        let n = self.n();
        let mut m = vec![0.0; n * n];
        for i in 0..n {
            for j in 0..n {
                let (a, b) = (i.min(j), i.max(j));
                m[i * n + j] = self.d2.get(a * 5 + b).map_or(0.0, |f| f.0);
            }
        }
        m
    }
    pub fn dual(&self) -> Dual {
        if self.n() == 0 {
            Dual::new(self.real.0, vec![])
        } else {
            Dual::try_new(self.real.0, self.names(), self.d1v()).expect("numspec")
        }
    }
    pub fn dual2(&self) -> Dual2 {
        if self.n() == 0 {
            Dual2::new(self.real.0, vec![])
        } else {
            Dual2::try_new(self.real.0, self.names(), self.d1v(), self.d2m()).expect("numspec")
        }
    }
    pub fn number(&self) -> Number {
        match self.kind % 3 {
            0 => Number::F64(self.real.0),
            1 => Number::Dual(self.dual()),
            _ => Number::Dual2(self.dual2()),
        }
    }
    pub fn with_real(&self, r: f64) -> NumSpec {
        NumSpec { real: Fl(r), ..self.clone() }
    }
    pub fn with_kind(&self, k: u8) -> NumSpec {
        NumSpec { kind: k, ..self.clone() }
    }
}

pub fn kind_name(n: &Number) -> &'static str {
    match n {
        Number::F64(_) => "f64",
        Number::Dual(_) => "Dual",
        Number::Dual2(_) => "Dual2",
    }
}

pub fn layout8(max: usize) -> impl Strategy<Value = Vec<u8>> {
    proptest::collection::vec(0u8..8, 0..=max).prop_map(|v| {
        let mut out = Vec::new();
        for x in v {
            if !out.contains(&x) {
                out.push(x);
            }
        }
        out
    })
}

pub fn real_value() -> impl Strategy<Value = Fl> {
    prop_oneof![
        6 => moderate(),
        2 => (-6i32..=6).prop_map(|i| Fl(if i == 0 { 3.5 } else { i as f64 * 0.5 })), // (no filter: rejections add up over millions of cases)
    ]
}

pub fn num_spec() -> impl Strategy<Value = NumSpec> {
    (0u8..3, real_value(), layout8(4), proptest::collection::vec(coeff(), 5), proptest::collection::vec(coeff(), 25))
        .prop_map(|(kind, real, layout, d1, d2)| NumSpec { kind, real, layout, d1, d2 })
}

fn bits_eq(a: f64, b: f64) -> bool {
    a.to_bits() == b.to_bits() || (a.is_nan() && b.is_nan())
}

pub fn same_dual(a: &Dual, b: &Dual) -> bool {
    bits_eq(a.real(), b.real())
        && a.vars().iter().eq(b.vars().iter())
        && a.dual().len() == b.dual().len()
        && a.dual().iter().zip(b.dual().iter()).all(|(x, y)| bits_eq(*x, *y))
}

pub fn same_dual2(a: &Dual2, b: &Dual2) -> bool {
    bits_eq(a.real(), b.real())
        && a.vars().iter().eq(b.vars().iter())
        && a.dual().len() == b.dual().len()
        && a.dual().iter().zip(b.dual().iter()).all(|(x, y)| bits_eq(*x, *y))
        && a.dual2().dim() == b.dual2().dim()
        && a.dual2().iter().zip(b.dual2().iter()).all(|(x, y)| bits_eq(*x, *y))
}

/// identical kind, value, variable list and derivative arrays, bit for bit
pub fn same_number(a: &Number, b: &Number) -> bool {
    match (a, b) {
        (Number::F64(x), Number::F64(y)) => bits_eq(*x, *y),
        (Number::Dual(x), Number::Dual(y)) => same_dual(x, y),
        (Number::Dual2(x), Number::Dual2(y)) => same_dual2(x, y),
        _ => false,
    }
}

pub fn show(n: &Number) -> String {
    match n {
        Number::F64(f) => format!("F64({:e})", f),
        Number::Dual(d) => format!("Dual({:e}, {:?}, {:?})", d.real(), d.vars().iter().collect::<Vec<_>>(), d.dual().to_vec()),
        Number::Dual2(d) => format!("Dual2({:e}, {:?}, {:?}, {:?})", d.real(), d.vars().iter().collect::<Vec<_>>(), d.dual().to_vec(), d.dual2().iter().collect::<Vec<_>>()),
    }
}
