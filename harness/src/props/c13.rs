//! C13 - The linear solver returns the true solution together with its derivatives.

use crate::engine::*;
use crate::util::*;
use ndarray::{Array1, Array2};
use proptest::prelude::*;
use rateslib::dual::linalg::{dsolve, fdsolve};
use rateslib::dual::{Dual, Dual2, Gradient1, Gradient2, Number};
use serde::{Deserialize, Serialize};

const VN: [&str; 3] = ["s", "t", "u"];

/// derivative content of one matrix / vector entry, by name
#[derive(Clone, Debug, Serialize, Deserialize, Default)]
pub struct Deriv {
    pub grad: Vec<(u8, Fl)>,
    /// second derivatives (true second derivatives, symmetric; given for name pairs a <= b)
    pub hess: Vec<(u8, u8, Fl)>,
    /// rotation of the entry's own variable list (layouts differ between entries)
    pub rot: u8,
    /// in Number mode: this entry is a plain float
    pub as_float: bool,
}

#[derive(Clone, Debug, Serialize, Deserialize)]
pub struct Case {
    /// 0 dsolve<f64>, 1 dsolve<Dual>, 2 dsolve<Dual2>, 3 dsolve<Number> with Dual, 4 dsolve<Number>
    /// with Dual2, 5 fdsolve b:f64, 6 fdsolve b:Dual, 7 fdsolve b:Dual2
    pub mode: u8,
    pub rows: usize,
    pub cols: usize,
    pub lsq: bool,
    /// real parts, row-major rows x cols
    pub a: Vec<Fl>,
    pub b: Vec<Fl>,
    pub da: Vec<Deriv>,
    pub db: Vec<Deriv>,
    /// row permutation for the metamorphic check (rotation + reversal flag)
    pub perm_rot: u8,
    pub perm_rev: bool,
    /// memory layout of the views handed to the solver: 0 row-major, 1 column-major (a transposed
    /// view, as numpy's A.T arrives), 2 strided (every second column / entry of a wider buffer)
    #[serde(default)]
    pub layout: u8,
}

fn lay2<T: Clone>(a: &Array2<T>, layout: u8) -> Array2<T> {
    let (r, c) = a.dim();
    match layout % 3 {
        0 => a.clone(),
        1 => Array2::from_shape_fn((c, r), |(j, i)| a[[i, j]].clone()),
        _ => Array2::from_shape_fn((r, 2 * c), |(i, j)| a[[i, j / 2]].clone()),
    }
}
fn view2<T>(h: &Array2<T>, layout: u8) -> ndarray::ArrayView2<'_, T> {
    match layout % 3 {
        0 => h.view(),
        1 => h.t(),
        _ => h.slice(ndarray::s![.., ..;2]),
    }
}
fn lay1<T: Clone>(b: &Array1<T>, layout: u8) -> Array1<T> {
    match layout % 3 {
        2 => Array1::from_shape_fn(2 * b.len(), |i| b[i / 2].clone()),
        _ => b.clone(),
    }
}
fn view1<T>(h: &Array1<T>, layout: u8) -> ndarray::ArrayView1<'_, T> {
    match layout % 3 {
        2 => h.slice(ndarray::s![..;2]),
        _ => h.view(),
    }
}

pub struct C13;

impl Deriv {
    fn g(&self) -> [f64; 3] {
        let mut g = [0.0; 3];
        let mut seen = [false; 3];
        for (n, c) in &self.grad {
            let k = (*n % 3) as usize;
            if !seen[k] {
                seen[k] = true;
                g[k] = c.0;
            }
        }
        g
    }
    fn h(&self) -> [[f64; 3]; 3] {
        let mut h = [[0.0; 3]; 3];
        let mut seen = [[false; 3]; 3];
        for (a, b, c) in &self.hess {
            let (i, j) = ((*a % 3).min(*b % 3) as usize, (*a % 3).max(*b % 3) as usize);
            if !seen[i][j] {
                seen[i][j] = true;
                h[i][j] = c.0;
                h[j][i] = c.0;
            }
        }
        h
    }
    /// the names this entry carries, in its own order
    fn names(&self, second: bool) -> Vec<usize> {
        let g = self.g();
        let h = self.h();
        let mut v: Vec<usize> = (0..3).filter(|k| g[*k] != 0.0 || (second && (0..3).any(|j| h[*k][j] != 0.0))).collect();
        if !v.is_empty() {
            let r = (self.rot as usize) % v.len();
            v.rotate_left(r);
        }
        v
    }
    fn dual(&self, real: f64) -> Dual {
        let names = self.names(false);
        let g = self.g();
        if names.is_empty() {
            Dual::new(real, vec![])
        } else {
            Dual::try_new(real, names.iter().map(|k| VN[*k].to_string()).collect(), names.iter().map(|k| g[*k]).collect()).expect("entry")
        }
    }
    fn dual2(&self, real: f64) -> Dual2 {
        let names = self.names(true);
        let (g, h) = (self.g(), self.h());
        if names.is_empty() {
            Dual2::new(real, vec![])
        } else {
            let mut flat = Vec::new();
            for a in &names {
                for b in &names {
                    flat.push(0.5 * h[*a][*b]); // storage convention: half the second derivative
                }
            }
            Dual2::try_new(real, names.iter().map(|k| VN[*k].to_string()).collect(), names.iter().map(|k| g[*k]).collect(), flat).expect("entry")
        }
    }
}

// ---------------------------------------------------------------------------------------------
// dense f64 helpers (the reference side)

type M = Vec<Vec<f64>>;

fn matvec(a: &M, x: &[f64]) -> Vec<f64> {
    a.iter().map(|r| r.iter().zip(x).map(|(p, q)| p * q).sum()).collect()
}
fn matvec_abs(a: &M, x: &[f64]) -> Vec<f64> {
    a.iter().map(|r| r.iter().zip(x).map(|(p, q)| (p * q).abs()).sum()).collect()
}
fn transpose(a: &M) -> M {
    let (r, c) = (a.len(), a[0].len());
    (0..c).map(|j| (0..r).map(|i| a[i][j]).collect()).collect()
}
fn matmul(a: &M, b: &M) -> M {
    let bt = transpose(b);
    a.iter().map(|r| bt.iter().map(|c| r.iter().zip(c).map(|(p, q)| p * q).sum()).collect()).collect()
}
fn madd(a: &M, b: &M) -> M {
    a.iter().zip(b).map(|(r, s)| r.iter().zip(s).map(|(p, q)| p + q).collect()).collect()
}
fn vadd(a: &[f64], b: &[f64]) -> Vec<f64> {
    a.iter().zip(b).map(|(p, q)| p + q).collect()
}

/// inverse by Gauss-Jordan with partial pivoting; also reports the columns at which the
/// elimination had to swap rows. None if numerically singular.
fn inverse(a: &M) -> Option<(M, Vec<usize>)> {
    let n = a.len();
    let mut m: M = a.iter().enumerate().map(|(i, r)| r.iter().cloned().chain((0..n).map(|j| if i == j { 1.0 } else { 0.0 })).collect()).collect();
    let mut swaps = Vec::new();
    for j in 0..n {
        let (mut p, mut best) = (j, m[j][j].abs());
        for i in j + 1..n {
            if m[i][j].abs() > best {
                best = m[i][j].abs();
                p = i;
            }
        }
        if best < 1e-300 {
            return None;
        }
        if p != j {
            m.swap(p, j);
            swaps.push(j);
        }
        let d = m[j][j];
        for k in 0..2 * n {
            m[j][k] /= d;
        }
        for i in 0..n {
            if i != j {
                let f = m[i][j];
                if f != 0.0 {
                    for k in 0..2 * n {
                        m[i][k] -= f * m[j][k];
                    }
                }
            }
        }
    }
    Some((m.into_iter().map(|r| r[n..].to_vec()).collect(), swaps))
}
fn norm1(a: &M) -> f64 {
    let (r, c) = (a.len(), a[0].len());
    (0..c).map(|j| (0..r).map(|i| a[i][j].abs()).sum::<f64>()).fold(0.0, f64::max)
}

// ---------------------------------------------------------------------------------------------
// generator

fn deriv() -> impl Strategy<Value = Deriv> {
    (
        proptest::collection::vec((0u8..3, coeff()), 0..3),
        proptest::collection::vec((0u8..3, 0u8..3, coeff()), 0..3),
        any::<u8>(),
        prop::bool::weighted(0.4),
    )
        .prop_map(|(grad, hess, rot, as_float)| Deriv { grad, hess, rot, as_float })
}

/// exponent of the power-of-two scale of a system: mostly 0, otherwise far from 1 in either direction
fn scale_exp() -> impl Strategy<Value = i32> {
    prop_oneof![6 => Just(0i32), 1 => -70i32..=-35, 1 => 35i32..=70]
}

fn case_strategy() -> impl Strategy<Value = Case> {
    (
        0u8..8,
        1usize..=8,
        prop_oneof![3 => Just(0usize), 1 => 1usize..=6],
        proptest::collection::vec(-0.6f64..0.6, 64), // unit lower factor
        proptest::collection::vec((-1.0f64..1.0, prop::bool::weighted(0.6)), 64), // upper factor (sparse)
        proptest::collection::vec((0.5f64..2.0, any::<bool>()), 8), // diagonal
        any::<[u8; 12]>(), // row permutation seed
        proptest::collection::vec(-2.0f64..2.0, 12 * 8), // extra rows for lsq
        proptest::collection::vec(-3.0f64..3.0, 12),
        proptest::collection::vec(deriv(), 12 * 8),
        proptest::collection::vec(deriv(), 12),
        (any::<u8>(), any::<bool>(), prop::bool::weighted(0.3), prop::sample::select(vec![0u8, 0, 1, 1, 2]), prop::bool::weighted(0.15), scale_exp(), scale_exp(), prop::bool::weighted(0.2), proptest::option::weighted(0.3, any::<u8>())),
    )
        .prop_map(|(mode, n, extra, l, u, d, pseed, xrows, b, da, db, (perm_rot, perm_rev, identity_l, layout, square_lsq, a_exp, b_exp, small_ints, dup_row))| {
            let cols = if extra > 0 { n.min(6) } else { n };
            let rows = cols + extra;
            // least squares is also allowed (and then used) on a square system
            let lsq = extra > 0 || square_lsq;
            // square block = L * U with a healthy diagonal; L = I gives the sparse triangular kind
            let mut sq = vec![vec![0.0; cols]; cols];
            for i in 0..cols {
                for j in 0..cols {
                    let mut s = 0.0;
                    for k in 0..=i.min(j) {
                        let lv = if k == i { 1.0 } else if identity_l { 0.0 } else { l[i * 8 + k] };
                        let uv = if k == j { d[k].0 * if d[k].1 { -1.0 } else { 1.0 } } else if u[k * 8 + j].1 { u[k * 8 + j].0 } else { 0.0 };
                        s += lv * uv;
                    }
                    sq[i][j] = s;
                }
            }
            let mut rows_v: Vec<Vec<f64>> = sq;
            // a fifth of the systems have small integer entries (-3..3): exact ties between a pivot
            // and the entries below it, multipliers of exactly +-1, columns of ones - what
            // Vandermonde, incidence and constraint matrices look like and what independent
            // continuous draws never produce (singular results are skipped by the conditioning test)
            if small_ints {
                for r in rows_v.iter_mut() {
                    for x in r.iter_mut() {
                        *x = (*x * 2.5).round().clamp(-3.0, 3.0);
                    }
                }
            }
            for e in 0..extra {
                rows_v.push((0..cols).map(|j| if small_ints { (xrows[e * 8 + j] * 1.5).round() } else { xrows[e * 8 + j] }).collect());
            }
            // shuffle rows (forces pivoting: zeros land on the diagonal)
            let mut order: Vec<usize> = (0..rows).collect();
            for i in (1..rows).rev() {
                let j = (pseed[i % 12] as usize) % (i + 1);
                order.swap(i, j);
            }
            // the whole of A (values and derivative content) and of b are scaled by exact powers of
            // two: conditioning does not depend on scale, so the property must hold unchanged.
            // (Scaling single equations is NOT done: a graded system has a huge condition number
            // in the usual sense, partial pivoting is not row-scaling invariant, and the property
            // speaks of well-conditioned systems.)
            let (sa, sb) = (2f64.powi(a_exp), 2f64.powi(b_exp));
            let scaled = |d: &Deriv, s: f64| Deriv { grad: d.grad.iter().map(|(n, c)| (*n, Fl(c.0 * s))).collect(), hess: d.hess.iter().map(|(i, j, c)| (*i, *j, Fl(c.0 * s))).collect(), rot: d.rot, as_float: d.as_float };
            let mut a: Vec<Fl> = order.iter().flat_map(|r| rows_v[*r].iter().map(|x| Fl(*x * sa)).collect::<Vec<_>>()).collect();
            let mut b: Vec<Fl> = b[..rows].iter().map(|x| Fl(*x * sb)).collect();
            let mut da: Vec<Deriv> = da[..rows * cols].iter().map(|d| scaled(d, sa)).collect();
            let mut db: Vec<Deriv> = db[..rows].iter().map(|d| scaled(d, sb)).collect();
            // a repeated observation: in a tall system one equation (row of A, entry of b, derivative
            // content included) is repeated verbatim in the row directly after it. In least squares it
            // carries double weight; the normal-equations oracle below handles that as it stands.
            if let (Some(r), true) = (dup_row, extra > 0 && rows >= 3) {
                let r = r as usize % (rows - 1);
                for j in 0..cols {
                    a[(r + 1) * cols + j] = a[r * cols + j];
                    da[(r + 1) * cols + j] = da[r * cols + j].clone();
                }
                b[r + 1] = b[r];
                db[r + 1] = db[r].clone();
            }
            Case {
                mode,
                rows,
                cols,
                lsq,
                a,
                b,
                da,
                db,
                perm_rot,
                perm_rev,
                layout,
            }
        })
}

// ---------------------------------------------------------------------------------------------

/// dense by-name content of the system and of a solution: value, d/dk, d2/dk dl
struct Dense {
    a0: M,
    a1: [M; 3],
    a2: [[M; 3]; 3],
    b0: Vec<f64>,
    b1: [Vec<f64>; 3],
    b2: [[Vec<f64>; 3]; 3],
}

struct Sol {
    x0: Vec<f64>,
    x1: [Vec<f64>; 3],
    x2: [[Vec<f64>; 3]; 3],
}

fn names3() -> Vec<String> {
    VN.iter().map(|s| s.to_string()).collect()
}

fn sol_from_f64(x: &Array1<f64>) -> Sol {
    let n = x.len();
    let z = || vec![0.0; n];
    Sol { x0: x.to_vec(), x1: [z(), z(), z()], x2: [[z(), z(), z()], [z(), z(), z()], [z(), z(), z()]] }
}
fn sol_from_dual(x: &Array1<Dual>) -> Sol {
    let mut s = sol_from_f64(&x.mapv(|d| d.real()));
    for (i, d) in x.iter().enumerate() {
        let g = d.gradient1(names3());
        for k in 0..3 {
            s.x1[k][i] = g[k];
        }
    }
    s
}
fn sol_from_dual2(x: &Array1<Dual2>) -> Sol {
    let mut s = sol_from_f64(&x.mapv(|d| d.real()));
    for (i, d) in x.iter().enumerate() {
        let g = d.gradient1(names3());
        let h = d.gradient2(names3());
        for k in 0..3 {
            s.x1[k][i] = g[k];
            for l in 0..3 {
                s.x2[k][l][i] = h[[k, l]];
            }
        }
    }
    s
}
fn sol_from_number(x: &Array1<Number>) -> Sol {
    let mut s = sol_from_f64(&x.mapv(|d| f64::from(&d)));
    for (i, d) in x.iter().enumerate() {
        match d {
            Number::F64(_) => {}
            Number::Dual(d) => {
                let g = d.gradient1(names3());
                for k in 0..3 {
                    s.x1[k][i] = g[k];
                }
            }
            Number::Dual2(d) => {
                let g = d.gradient1(names3());
                let h = d.gradient2(names3());
                for k in 0..3 {
                    s.x1[k][i] = g[k];
                    for l in 0..3 {
                        s.x2[k][l][i] = h[[k, l]];
                    }
                }
            }
        }
    }
    s
}

impl Case {
    /// what derivative content the element types of this mode can carry: (A order, b order)
    fn orders(&self) -> (u8, u8) {
        match self.mode % 8 {
            0 => (0, 0),
            1 => (1, 1),
            2 => (2, 2),
            3 => (1, 1),
            4 => (2, 2),
            5 => (0, 0),
            6 => (0, 1),
            _ => (0, 2),
        }
    }
    fn number_mode(&self) -> bool {
        matches!(self.mode % 8, 3 | 4)
    }
    fn dense(&self) -> Dense {
        let (oa, ob) = self.orders();
        let (r, c) = (self.rows, self.cols);
        let zm = || vec![vec![0.0; c]; r];
        let zv = || vec![0.0; r];
        let mut d = Dense {
            a0: (0..r).map(|i| (0..c).map(|j| self.a[i * c + j].0).collect()).collect(),
            a1: [zm(), zm(), zm()],
            a2: [[zm(), zm(), zm()], [zm(), zm(), zm()], [zm(), zm(), zm()]],
            b0: self.b.iter().map(|x| x.0).collect(),
            b1: [zv(), zv(), zv()],
            b2: [[zv(), zv(), zv()], [zv(), zv(), zv()], [zv(), zv(), zv()]],
        };
        for i in 0..r {
            for j in 0..c {
                let e = &self.da[i * c + j];
                if self.number_mode() && e.as_float {
                    continue;
                }
                let (g, h) = (e.g(), e.h());
                for k in 0..3 {
                    if oa >= 1 {
                        d.a1[k][i][j] = g[k];
                    }
                    for l in 0..3 {
                        if oa >= 2 {
                            d.a2[k][l][i][j] = h[k][l];
                        }
                    }
                }
            }
            let e = &self.db[i];
            if self.number_mode() && e.as_float {
                continue;
            }
            let (g, h) = (e.g(), e.h());
            for k in 0..3 {
                if ob >= 1 {
                    d.b1[k][i] = g[k];
                }
                for l in 0..3 {
                    if ob >= 2 {
                        d.b2[k][l][i] = h[k][l];
                    }
                }
            }
        }
        d
    }

    /// run the library on rows taken in the given order
    fn solve(&self, order: &[usize]) -> Sol {
        let (r, c) = (self.rows, self.cols);
        let av = |f: &dyn Fn(usize, usize) -> f64| -> Array2<f64> { Array2::from_shape_fn((r, c), |(i, j)| f(order[i], j)) };
        let a_f = av(&|i, j| self.a[i * c + j].0);
        let b_f = Array1::from_shape_fn(r, |i| self.b[order[i]].0);
        let l = self.layout % 3;
        let (ha_f, hb_f) = (lay2(&a_f, l), lay1(&b_f, l));
        match self.mode % 8 {
            0 => sol_from_f64(&dsolve(&view2(&ha_f, l), &view1(&hb_f, l), self.lsq)),
            1 => {
                let a = Array2::from_shape_fn((r, c), |(i, j)| self.da[order[i] * c + j].dual(self.a[order[i] * c + j].0));
                let b = Array1::from_shape_fn(r, |i| self.db[order[i]].dual(self.b[order[i]].0));
                let (ha, hb) = (lay2(&a, l), lay1(&b, l));
                sol_from_dual(&dsolve(&view2(&ha, l), &view1(&hb, l), self.lsq))
            }
            2 => {
                let a = Array2::from_shape_fn((r, c), |(i, j)| self.da[order[i] * c + j].dual2(self.a[order[i] * c + j].0));
                let b = Array1::from_shape_fn(r, |i| self.db[order[i]].dual2(self.b[order[i]].0));
                let (ha, hb) = (lay2(&a, l), lay1(&b, l));
                sol_from_dual2(&dsolve(&view2(&ha, l), &view1(&hb, l), self.lsq))
            }
            m @ (3 | 4) => {
                let mk = |e: &Deriv, real: f64| -> Number {
                    if e.as_float {
                        Number::F64(real)
                    } else if m == 3 {
                        Number::Dual(e.dual(real))
                    } else {
                        Number::Dual2(e.dual2(real))
                    }
                };
                let a = Array2::from_shape_fn((r, c), |(i, j)| mk(&self.da[order[i] * c + j], self.a[order[i] * c + j].0));
                let b = Array1::from_shape_fn(r, |i| mk(&self.db[order[i]], self.b[order[i]].0));
                let (ha, hb) = (lay2(&a, l), lay1(&b, l));
                sol_from_number(&dsolve(&view2(&ha, l), &view1(&hb, l), self.lsq))
            }
            5 => sol_from_f64(&fdsolve(&view2(&ha_f, l), &view1(&hb_f, l), self.lsq)),
            6 => {
                let b = Array1::from_shape_fn(r, |i| self.db[order[i]].dual(self.b[order[i]].0));
                let hb = lay1(&b, l);
                sol_from_dual(&fdsolve(&view2(&ha_f, l), &view1(&hb, l), self.lsq))
            }
            _ => {
                let b = Array1::from_shape_fn(r, |i| self.db[order[i]].dual2(self.b[order[i]].0));
                let hb = lay1(&b, l);
                sol_from_dual2(&fdsolve(&view2(&ha_f, l), &view1(&hb, l), self.lsq))
            }
        }
    }
}

impl Property for C13 {
    type Case = Case;
    fn id(&self) -> &'static str {
        "C13"
    }

    fn check(&self, c: &Case) -> Verdict {
        let mut v = Verdict::new();
        const MODES: [&str; 8] = ["type:dsolve<f64>", "type:dsolve<Dual>", "type:dsolve<Dual2>", "type:dsolve<Number:Dual>", "type:dsolve<Number:Dual2>", "type:fdsolve<f64>", "type:fdsolve<Dual>", "type:fdsolve<Dual2>"];
        v.label(MODES[(c.mode % 8) as usize]);
        v.label(["layout:row-major", "layout:column-major", "layout:strided"][(c.layout % 3) as usize]);
        v.label_if(c.lsq, "least-squares");
        v.label_if(c.lsq && c.rows == c.cols, "least-squares:square-system");
        let dup = (0..c.rows.saturating_sub(1)).any(|r| (0..c.cols).all(|j| c.a[r * c.cols + j].0 == c.a[(r + 1) * c.cols + j].0) && c.b[r].0 == c.b[r + 1].0);
        v.label_if(c.lsq && c.rows > c.cols && dup, "least-squares:repeated-adjacent-equation");
        let amax = c.a.iter().fold(0.0f64, |m, x| m.max(x.0.abs()));
        v.label_if(amax < 1e-9, "scale:tiny-matrix");
        v.label_if(amax > 1e9, "scale:huge-matrix");
        let integer_entries = { let unit = c.a.iter().map(|x| x.0.abs()).filter(|x| *x > 0.0).fold(f64::INFINITY, f64::min); unit.is_finite() && c.a.iter().all(|x| (x.0 / unit).fract() == 0.0 && (x.0 / unit).abs() <= 3.0) };
        let d = c.dense();
        // the square system actually solved: A itself or the normal equations
        let (m0, m1, m2, c0, c1, c2): (M, [M; 3], [[M; 3]; 3], Vec<f64>, [Vec<f64>; 3], [[Vec<f64>; 3]; 3]) = if c.lsq {
            let at = transpose(&d.a0);
            let a1t: Vec<M> = (0..3).map(|k| transpose(&d.a1[k])).collect();
            let m0 = matmul(&at, &d.a0);
            let m1: [M; 3] = std::array::from_fn(|k| madd(&matmul(&a1t[k], &d.a0), &matmul(&at, &d.a1[k])));
            let m2: [[M; 3]; 3] = std::array::from_fn(|k| {
                std::array::from_fn(|l| {
                    let t1 = matmul(&transpose(&d.a2[k][l]), &d.a0);
                    let t2 = matmul(&a1t[k], &d.a1[l]);
                    let t3 = matmul(&a1t[l], &d.a1[k]);
                    let t4 = matmul(&at, &d.a2[k][l]);
                    madd(&madd(&t1, &t2), &madd(&t3, &t4))
                })
            });
            let c0 = matvec(&at, &d.b0);
            let c1: [Vec<f64>; 3] = std::array::from_fn(|k| vadd(&matvec(&a1t[k], &d.b0), &matvec(&at, &d.b1[k])));
            let c2: [[Vec<f64>; 3]; 3] = std::array::from_fn(|k| {
                std::array::from_fn(|l| {
                    let t1 = matvec(&transpose(&d.a2[k][l]), &d.b0);
                    let t2 = matvec(&a1t[k], &d.b1[l]);
                    let t3 = matvec(&a1t[l], &d.b1[k]);
                    let t4 = matvec(&at, &d.b2[k][l]);
                    vadd(&vadd(&t1, &t2), &vadd(&t3, &t4))
                })
            });
            (m0, m1, m2, c0, c1, c2)
        } else {
            (d.a0.clone(), d.a1.clone(), d.a2.clone(), d.b0.clone(), d.b1.clone(), d.b2.clone())
        };
        // size of the terms that make up the right-hand side actually solved for: |b| itself, or for
        // least squares sum_r |A_ri| |b_r| (A^T b can cancel to almost nothing; its rounding error
        // does not)
        let c0_abs: Vec<f64> = if c.lsq { (0..c.cols).map(|i| (0..c.rows).map(|r| (d.a0[r][i] * d.b0[r]).abs()).sum()).collect() } else { c0.iter().map(|x| x.abs()).collect() };
        let (inv, swaps) = match inverse(&m0) {
            Some(x) => x,
            None => {
                v.label("skipped:singular-draw");
                return v;
            }
        };
        let cond = norm1(&m0) * norm1(&inv);
        if !(cond < 1e6) {
            v.label("skipped:ill-conditioned-draw");
            return v;
        }
        let n = c.cols;
        let has_deriv = d.a1.iter().any(|m| m.iter().flatten().any(|x| *x != 0.0)) || d.b1.iter().any(|m| m.iter().any(|x| *x != 0.0));
        v.nt(n >= 2 && !swaps.is_empty() && has_deriv);
        v.label_if(!swaps.is_empty(), "pivot:row-swap-needed");
        v.label_if(integer_entries && n >= 2, "entries:small-integers");
        v.label_if(swaps.iter().any(|j| *j >= 2), "pivot:swap-in-column>=2");
        v.label_if(!c.lsq && (0..n).any(|j| d.a0[j][j] == 0.0), "pivot:zero-on-diagonal");
        v.label(intern(format!("size:{}", n)));

        let identity: Vec<usize> = (0..c.rows).collect();
        let sol = match catch(|| c.solve(&identity)) {
            Ok(s) => s,
            Err(p) => {
                v.fail(format!("solver | panic | {}", p.site()), p.message);
                return v;
            }
        };
        let tol = 1e-9 * cond;
        // A0 x0 = b0
        let r0 = matvec(&m0, &sol.x0);
        let s0 = matvec_abs(&m0, &sol.x0);
        for i in 0..n {
            if !((r0[i] - c0[i]).abs() <= tol * (s0[i] + c0_abs[i]) + 1e-300) {
                v.fail("solution does not satisfy A x = b in value", format!("row {}: A x = {:e}, b = {:e} (cond {:.1e})", i, r0[i], c0[i], cond));
                return v;
            }
        }
        let (oa, ob) = c.orders();
        if oa.max(ob) >= 1 {
            for k in 0..3 {
                // A0 x_k + A_k x0 = b_k
                let lhs = vadd(&matvec(&m0, &sol.x1[k]), &matvec(&m1[k], &sol.x0));
                let sc = vadd(&matvec_abs(&m0, &sol.x1[k]), &matvec_abs(&m1[k], &sol.x0));
                for i in 0..n {
                    if !((lhs[i] - c1[k][i]).abs() <= tol * (sc[i] + c1[k][i].abs() + s0[i]) + 1e-300) {
                        v.fail(
                            "first derivative of the solution does not satisfy the differentiated system",
                            format!("d/d{} row {}: A x' + A' x = {:e}, b' = {:e} (cond {:.1e})", VN[k], i, lhs[i], c1[k][i], cond),
                        );
                        return v;
                    }
                }
            }
        }
        if oa.max(ob) >= 2 {
            for k in 0..3 {
                for l in 0..3 {
                    let t = [matvec(&m2[k][l], &sol.x0), matvec(&m1[k], &sol.x1[l]), matvec(&m1[l], &sol.x1[k]), matvec(&m0, &sol.x2[k][l])];
                    let ta = [matvec_abs(&m2[k][l], &sol.x0), matvec_abs(&m1[k], &sol.x1[l]), matvec_abs(&m1[l], &sol.x1[k]), matvec_abs(&m0, &sol.x2[k][l])];
                    for i in 0..n {
                        let lhs: f64 = t.iter().map(|x| x[i]).sum();
                        let sc: f64 = ta.iter().map(|x| x[i]).sum();
                        if !((lhs - c2[k][l][i]).abs() <= tol * cond.sqrt().max(1.0) * (sc + c2[k][l][i].abs() + s0[i]) + 1e-300) {
                            v.fail(
                                "second derivative of the solution does not satisfy the twice differentiated system",
                                format!("d2/d{}d{} row {}: lhs {:e}, rhs {:e} (cond {:.1e})", VN[k], VN[l], i, lhs, c2[k][l][i], cond),
                            );
                            return v;
                        }
                    }
                }
            }
        }
        // row order of the system does not change the answer
        let mut order: Vec<usize> = (0..c.rows).collect();
        order.rotate_left((c.perm_rot as usize) % c.rows.max(1));
        if c.perm_rev {
            order.reverse();
        }
        if order != identity {
            v.label("row-permutation:checked");
            match catch(|| c.solve(&order)) {
                Ok(p) => {
                    // (plus what the rounding of the right-hand side's terms can move x by)
                    let xs = sol.x0.iter().fold(0.0f64, |m, x| m.max(x.abs())) + norm1(&inv) * c0_abs.iter().cloned().fold(0.0f64, f64::max);
                    for i in 0..n {
                        if !((p.x0[i] - sol.x0[i]).abs() <= tol * xs + 1e-300) {
                            v.fail("row order of the system changes the solution", format!("x[{}]: {:e} vs {:e} (cond {:.1e})", i, p.x0[i], sol.x0[i], cond));
                            return v;
                        }
                        for k in 0..3 {
                            let gs = sol.x1[k].iter().fold(0.0f64, |m, x| m.max(x.abs()));
                            if !((p.x1[k][i] - sol.x1[k][i]).abs() <= tol * cond * (gs + xs) + 1e-300) {
                                v.fail("row order of the system changes the solution's derivatives", format!("dx[{}]/d{}: {:e} vs {:e}", i, VN[k], p.x1[k][i], sol.x1[k][i]));
                                return v;
                            }
                        }
                    }
                }
                Err(pn) => {
                    v.fail(format!("solver | panic on permuted rows | {}", pn.site()), pn.message);
                    return v;
                }
            }
        }
        v
    }

    fn plan(&self, tier: Tier) -> Vec<Stage<Case>> {
        vec![Stage::random("systems", tier.pick(200_000, 5_000_000), case_strategy)]
    }

    fn rule(&self) -> String {
        "random systems: square 1-8 (least squares allowed on 15% of them) and tall up to 14x6 (least squares; in 30% of them one equation is repeated verbatim in the next row), real parts built as (unit lower, or identity) x (sparse upper with |diagonal| in [0.5,2]) with the rows shuffled so that zeros land on the diagonal and partial pivoting must swap (also in later columns); a fifth of the systems have small integer entries (exact pivot ties, multipliers of exactly +-1); A (values and derivative content) and b are each scaled by an exact power of two (1 in 75% of draws, otherwise 2^+-35..70); A and b are handed over as row-major, column-major (transposed view, as numpy's A.T arrives) or strided views; entries lifted to derivative content over 3 names with differing variable orders; element types dsolve::<f64|Dual|Dual2|Number> (Number mixes floats with one dual kind in A and b) and fdsolve with b of f64|Dual|Dual2. Oracle: the returned x, read by name, must satisfy A0 x0 = b0, A0 x_k + A_k x0 = b_k and A_kl x0 + A_k x_l + A_l x_k + A0 x_kl = b_kl (for least squares the same identities for A^T A x = A^T b) with residuals <= 1e-9 x cond x sum of absolute terms; solving the row-permuted system gives the same x. Draws with cond >= 1e6 are skipped and counted. Non-trivial: n >= 2, a row swap is needed, and a non-zero derivative is present.".into()
    }

    fn floors(&self, tier: Tier) -> Vec<Floor> {
        let n = tier.pick(200_000u64, 5_000_000);
        let mut f = vec![
            Floor { label: "pivot:row-swap-needed", min: n / 3 },
            Floor { label: "pivot:swap-in-column>=2", min: n / 10 },
            Floor { label: "pivot:zero-on-diagonal", min: n / 10 },
            Floor { label: "least-squares", min: n / 10 },
            Floor { label: "least-squares:square-system", min: n / 20 },
            Floor { label: "least-squares:repeated-adjacent-equation", min: n / 50 },
            Floor { label: "scale:tiny-matrix", min: n / 20 },
            Floor { label: "scale:huge-matrix", min: n / 20 },
            Floor { label: "entries:small-integers", min: n / 100 },
            Floor { label: "row-permutation:checked", min: n / 3 },
            Floor { label: "layout:column-major", min: n / 5 },
            Floor { label: "layout:strided", min: n / 10 },
        ];
        for m in ["type:dsolve<f64>", "type:dsolve<Dual>", "type:dsolve<Dual2>", "type:dsolve<Number:Dual>", "type:dsolve<Number:Dual2>", "type:fdsolve<f64>", "type:fdsolve<Dual>", "type:fdsolve<Dual2>"] {
            f.push(Floor { label: m, min: n / 20 });
        }
        f
    }

    fn assumptions(&self) -> Vec<String> {
        vec![
            "systems are well conditioned by construction (cond_1 < 1e6 of the matrix actually eliminated, estimated with an own Gauss-Jordan inverse); singular systems are outside this property".into(),
            "the solution's derivatives are read through gradient1/gradient2 by name (C17)".into(),
        ]
    }
}
