//! C19 - Ordering, sign, remainder, sums and identities are coherent with the value.

use crate::engine::*;
use crate::props::numgen::*;
use crate::util::*;
use num_traits::{One, Signed, Zero};
use proptest::prelude::*;
use rateslib::dual::{Dual, Dual2, Gradient1, Gradient2, Number, Vars};
use serde::{Deserialize, Serialize};
use std::cmp::Ordering;
use std::collections::BTreeMap;

#[derive(Clone, Debug, Serialize, Deserialize)]
pub struct Case {
    /// 1 = first order, 2 = second order (both operands)
    pub kind: u8,
    pub a: NumSpec,
    pub b: NumSpec,
    /// alternative derivative content for a (same value): comparisons must not change
    pub a_alt: NumSpec,
    pub f: Fl,
    pub seq: Vec<NumSpec>,
    /// comparison-only value pairs from the table of special floats (signed zeros, NaN,
    /// infinities, neighbours, subnormals); the derivative content is that of a and b
    #[serde(default)]
    pub special: Vec<(Fl, Fl)>,
    /// remainder-only value pairs (dividend, divisor) whose float quotient lies within a few ulps
    /// of a whole number (decimal inputs such as 0.3 % 0.1), on either side of it
    #[serde(default)]
    pub rem_pairs: Vec<(Fl, Fl)>,
}

const SPECIALS: [f64; 12] = [0.0, -0.0, f64::NAN, f64::INFINITY, f64::NEG_INFINITY, 1.0, 1.0000000000000002, -1.0, 5e-324, -5e-324, f64::MAX, f64::MIN_POSITIVE];

pub struct C19;

/// by-name view read from a number's own arrays: (value, name -> d1, (name,name) -> stored d2)
type View = (f64, BTreeMap<String, f64>, BTreeMap<(String, String), f64>);

fn view(n: &Number) -> View {
    match n {
        Number::F64(f) => (*f, BTreeMap::new(), BTreeMap::new()),
        Number::Dual(d) => {
            let names: Vec<String> = d.vars().iter().cloned().collect();
            (d.real(), names.iter().cloned().zip(d.dual().iter().cloned()).collect(), BTreeMap::new())
        }
        Number::Dual2(d) => {
            let names: Vec<String> = d.vars().iter().cloned().collect();
            let mut m2 = BTreeMap::new();
            for (i, a) in names.iter().enumerate() {
                for (j, b) in names.iter().enumerate() {
                    m2.insert((a.clone(), b.clone()), d.dual2()[[i, j]]);
                }
            }
            (d.real(), names.iter().cloned().zip(d.dual().iter().cloned()).collect(), m2)
        }
    }
}

/// equality by name with missing == 0 and a tolerance relative to `scale`
fn views_close(x: &View, y: &View, rel: f64) -> bool {
    let c = |a: f64, b: f64| a == b || (a - b).abs() <= rel * (a.abs() + b.abs());
    if !c(x.0, y.0) {
        return false;
    }
    for k in x.1.keys().chain(y.1.keys()) {
        if !c(*x.1.get(k).unwrap_or(&0.0), *y.1.get(k).unwrap_or(&0.0)) {
            return false;
        }
    }
    for k in x.2.keys().chain(y.2.keys()) {
        if !c(*x.2.get(k).unwrap_or(&0.0), *y.2.get(k).unwrap_or(&0.0)) {
            return false;
        }
    }
    true
}

/// c1 * x + c2 * y by name
fn lincomb(c1: f64, x: &View, c2: f64, y: &View) -> View {
    let mut d1 = BTreeMap::new();
    for k in x.1.keys().chain(y.1.keys()) {
        d1.insert(k.clone(), c1 * x.1.get(k).unwrap_or(&0.0) + c2 * y.1.get(k).unwrap_or(&0.0));
    }
    let mut d2 = BTreeMap::new();
    for k in x.2.keys().chain(y.2.keys()) {
        d2.insert(k.clone(), c1 * x.2.get(k).unwrap_or(&0.0) + c2 * y.2.get(k).unwrap_or(&0.0));
    }
    (c1 * x.0 + c2 * y.0, d1, d2)
}

macro_rules! check_typed {
    ($v:ident, $c:ident, $T:ty, $mk:ident, $wrap:expr) => {{
        let a: $T = $c.a.$mk();
        let b: $T = $c.b.$mk();
        let a_alt: $T = $c.a_alt.with_real($c.a.real.0).$mk();
        let f = $c.f.0;
        let (x, y) = ($c.a.real.0, $c.b.real.0);
        let wrap = $wrap;
        // ---- comparisons follow the values only
        let cmp_tt = [(a < b, x < y, "<"), (a <= b, x <= y, "<="), (a > b, x > y, ">"), (a >= b, x >= y, ">=")];
        for (got, exp, name) in cmp_tt {
            if got != exp {
                $v.fail(format!("comparison {} between numbers differs from the float comparison", name), format!("{:e} {} {:e}: {}", x, name, y, got));
                return;
            }
        }
        if a.partial_cmp(&b) != x.partial_cmp(&y) || a_alt.partial_cmp(&b) != x.partial_cmp(&y) || b.partial_cmp(&a_alt) != y.partial_cmp(&x) {
            $v.fail("partial_cmp differs from the float comparison or depends on derivatives", format!("{:e} vs {:e}: {:?}, with other derivatives {:?}", x, y, a.partial_cmp(&b), a_alt.partial_cmp(&b)));
            return;
        }
        let cmp_tf = [(a < f, x < f, "< float"), (a <= f, x <= f, "<= float"), (a > f, x > f, "> float"), (a >= f, x >= f, ">= float"), (f < a, f < x, "float <"), (f <= a, f <= x, "float <="), (f > a, f > x, "float >"), (f >= a, f >= x, "float >=")];
        for (got, exp, name) in cmp_tf {
            if got != exp {
                $v.fail(format!("comparison {} differs from the float comparison", name), format!("value {:e}, float {:e}: {}", x, f, got));
                return;
            }
        }
        if a.partial_cmp(&f) != x.partial_cmp(&f) || f.partial_cmp(&a) != f.partial_cmp(&x) {
            $v.fail("partial_cmp with a float differs from the float comparison", format!("{:e} vs {:e}", x, f));
            return;
        }
        // ---- the same comparisons through the generic number container, every operand position
        {
            let (na, nb, nf) = (wrap(a.clone()), wrap(b.clone()), Number::F64(f));
            let cont: [(&str, Option<Ordering>, [bool; 4], Option<Ordering>); 6] = [
                ("container vs container", na.partial_cmp(&nb), [na < nb, na <= nb, na > nb, na >= nb], x.partial_cmp(&y)),
                ("container vs float container", na.partial_cmp(&nf), [na < nf, na <= nf, na > nf, na >= nf], x.partial_cmp(&f)),
                ("float container vs container", nf.partial_cmp(&na), [nf < na, nf <= na, nf > na, nf >= na], f.partial_cmp(&x)),
                ("container vs float", na.partial_cmp(&f), [na < f, na <= f, na > f, na >= f], x.partial_cmp(&f)),
                ("float vs container", f.partial_cmp(&na), [f < na, f <= na, f > na, f >= na], f.partial_cmp(&x)),
                ("float vs float container", f.partial_cmp(&nf), [f < nf, f <= nf, f > nf, f >= nf], f.partial_cmp(&f)),
            ];
            for (name, got, ops, exp) in cont {
                let exp_ops = [exp == Some(Ordering::Less), matches!(exp, Some(Ordering::Less | Ordering::Equal)), exp == Some(Ordering::Greater), matches!(exp, Some(Ordering::Greater | Ordering::Equal))];
                if got != exp || ops != exp_ops {
                    $v.fail(format!("comparison through the number container differs from the float comparison | {}", name), format!("values {:e}, {:e}, float {:e}: partial_cmp {:?} (float comparison {:?}), [<, <=, >, >=] = {:?}", x, y, f, got, exp, ops));
                    return;
                }
            }
        }
        // ---- special values (signed zeros, NaN, infinities, neighbours): comparisons only
        for (p, q) in $c.special.iter().map(|(p, q)| (p.0, q.0)) {
            let (sa, sb): ($T, $T) = ($c.a.with_real(p).$mk(), $c.b.with_real(q).$mk());
            let (na, nb) = (wrap(sa.clone()), wrap(sb.clone()));
            let exp = p.partial_cmp(&q);
            let exp_ops = [p < q, p <= q, p > q, p >= q];
            let forms: [(&str, Option<Ordering>, [bool; 4]); 6] = [
                ("number vs number", sa.partial_cmp(&sb), [sa < sb, sa <= sb, sa > sb, sa >= sb]),
                ("number vs float", sa.partial_cmp(&q), [sa < q, sa <= q, sa > q, sa >= q]),
                ("float vs number", p.partial_cmp(&sb), [p < sb, p <= sb, p > sb, p >= sb]),
                ("container vs container", na.partial_cmp(&nb), [na < nb, na <= nb, na > nb, na >= nb]),
                ("container vs float", na.partial_cmp(&q), [na < q, na <= q, na > q, na >= q]),
                ("float vs container", p.partial_cmp(&nb), [p < nb, p <= nb, p > nb, p >= nb]),
            ];
            for (name, got, ops) in forms {
                if got != exp || ops != exp_ops {
                    $v.fail(format!("comparison of special values differs from the float comparison | {}", name), format!("{:?} vs {:?}: partial_cmp {:?} (floats {:?}), [<, <=, >, >=] = {:?} (floats {:?})", p, q, got, exp, ops, exp_ops));
                    return;
                }
            }
        }
        // equal value, equal numbers => Equal
        let twin: $T = $c.a.$mk();
        if a == twin && a.partial_cmp(&twin) != Some(Ordering::Equal) {
            $v.fail("a == b but partial_cmp is not Equal", format!("{:e}", x));
            return;
        }
        // ---- abs
        let va = view(&wrap(a.clone()));
        let vabs = view(&wrap(Signed::abs(&a)));
        let exp_abs = if x < 0.0 { lincomb(-1.0, &va, 0.0, &va) } else { va.clone() };
        if !views_close(&vabs, &exp_abs, 0.0) {
            $v.fail(if x < 0.0 { "abs of a negative number does not flip value and all derivatives" } else { "abs of a positive number changes it" }, format!("abs({:?}) = {:?}", va, vabs));
            return;
        }
        if a.is_negative() != (x < 0.0) || a.is_positive() != (x > 0.0) {
            $v.fail("is_negative/is_positive disagree with the value", format!("{:e}", x));
            return;
        }
        // ---- remainder, all operand forms
        let vb = view(&wrap(b.clone()));
        // "the truncated quotient" is accepted in either of its two readings - of the float quotient
        // or of the exact quotient (what the float remainder uses) - which differ by one when the
        // float division rounds across a whole number (-1.0 / 0.2); see the decimal pairs below
        let fv: View = (f, BTreeMap::new(), BTreeMap::new());
        let forms: [(&str, View, &View, &View, f64, f64); 3] = [
            ("number % number", view(&wrap(&a % &b)), &va, &vb, x, y),
            ("number % float", view(&wrap(&a % f)), &va, &fv, x, f),
            ("float % number", view(&wrap(f % &b)), &fv, &vb, f, y),
        ];
        for (name, got, va2, vb2, num, den) in forms {
            let scale = x.abs() + y.abs() + f.abs();
            let candidates = [(num / den).trunc(), ((num - num % den) / den).round()];
            let ok = candidates.iter().any(|d| {
                let exp = lincomb(1.0, va2, -d, vb2);
                views_close(&got, &exp, 1e-12) || ((got.0 - exp.0).abs() <= 1e-12 * scale && views_close(&(0.0, got.1.clone(), got.2.clone()), &(0.0, exp.1.clone(), exp.2.clone()), 1e-12))
            });
            if !ok {
                $v.fail(format!("remainder | {} is not a - b*trunc(a/b) in value and derivatives", name), format!("a = {:?}, b = {:?}, float {:e} (accepted quotients {:?}): got {:?}", va, vb, f, candidates, got));
                return;
            }
        }
        // ---- remainders of decimal-looking pairs whose quotient is a hair away from a whole number.
        // "The truncated quotient" has two readings there - of the float quotient p / q, or of the
        // exact quotient (what fmod uses) - which differ by one when the float division rounds
        // across a whole number (0.9 / 0.1 = 9.000000000000002 but 0.9 = 8 x 0.1 + 0.0999..).
        // Either is accepted, consistently in value and derivatives; anything else is not.
        for (p, q) in $c.rem_pairs.iter().map(|(p, q)| (p.0, q.0)) {
            let (sa, sb): ($T, $T) = ($c.a.with_real(p).$mk(), $c.b.with_real(q).$mk());
            let (vsa, vsb) = (view(&wrap(sa.clone())), view(&wrap(sb.clone())));
            let plain_p: View = (p, BTreeMap::new(), BTreeMap::new());
            let plain_q: View = (q, BTreeMap::new(), BTreeMap::new());
            let candidates = [(p / q).trunc(), ((p - p % q) / q).round()];
            let forms2: [(&str, View, &View, &View); 3] = [("number % number", view(&wrap(&sa % &sb)), &vsa, &vsb), ("number % float", view(&wrap(&sa % q)), &vsa, &plain_q), ("float % number", view(&wrap(p % &sb)), &plain_p, &vsb)];
            for (name, got, va2, vb2) in forms2 {
                let scale = p.abs() + q.abs();
                let ok = candidates.iter().any(|d| {
                    let exp = lincomb(1.0, va2, -d, vb2);
                    views_close(&got, &exp, 1e-12) || ((got.0 - exp.0).abs() <= 1e-12 * scale && views_close(&(0.0, got.1.clone(), got.2.clone()), &(0.0, exp.1.clone(), exp.2.clone()), 1e-12))
                });
                if !ok {
                    $v.fail(format!("remainder | {} is not a - b*trunc(a/b) in value and derivatives", name), format!("near-integer quotient {:?} / {:?} = {:?} (accepted quotients {:?}): got {:?}", p, q, p / q, candidates, got));
                    return;
                }
            }
        }
        // owned forms agree with the reference forms
        if !views_close(&view(&wrap(a.clone() % b.clone())), &view(&wrap(&a % &b)), 0.0) || !views_close(&view(&wrap(a.clone() % f)), &view(&wrap(&a % f)), 0.0) || !views_close(&view(&wrap(f % b.clone())), &view(&wrap(f % &b)), 0.0) {
            $v.fail("remainder | owned operand forms differ from reference forms", "".to_string());
            return;
        }
        // ---- sums
        let seq: Vec<$T> = $c.seq.iter().map(|s| s.$mk()).collect();
        let s: $T = seq.iter().cloned().sum();
        let mut acc: View = (0.0, BTreeMap::new(), BTreeMap::new());
        for t in &seq {
            acc = lincomb(1.0, &acc, 1.0, &view(&wrap(t.clone())));
        }
        if !views_close(&view(&wrap(s.clone())), &acc, 1e-15) {
            $v.fail("sum differs from adding left to right from zero", format!("{:?} vs {:?}", view(&wrap(s)), acc));
            return;
        }
        // the sum must not depend on the kind of iterator it is fed from (adaptors whose size
        // hint has a lower bound of 0 although they yield every item, owned vs borrowed items)
        let via: [(&str, $T); 5] = [
            ("filter", seq.iter().filter(|_| true).cloned().sum()),
            ("flat_map", seq.chunks(2).flat_map(|ch| ch.iter().cloned()).sum()),
            ("skip_while + take_while", seq.iter().skip_while(|_| false).take_while(|_| true).cloned().sum()),
            ("from_fn", { let mut it = seq.iter(); std::iter::from_fn(move || it.next().cloned()).sum() }),
            ("into_iter (owned)", seq.clone().into_iter().sum()),
        ];
        for (name, alt) in via {
            if !views_close(&view(&wrap(alt.clone())), &view(&wrap(s.clone())), 0.0) {
                $v.fail(format!("sum depends on the iterator it is fed from | {}", name), format!("{:?} through {} vs {:?} through a slice iterator", view(&wrap(alt)), name, view(&wrap(s))));
                return;
            }
        }
        // a sequence of RELATED terms (copies, scaled copies and products of earlier terms: they share
        // variable-list storage with one another in every possible pattern) against an explicit fold
        if seq.len() >= 2 {
            let rel: Vec<$T> = vec![seq[0].clone(), &seq[1] * &seq[0], &seq[0] * 2.0, seq[0].clone(), &seq[0] * &seq[1], seq[1].clone(), &seq[0] + &seq[1]];
            for take in 3..=rel.len() {
                let by_sum: $T = rel[..take].iter().cloned().sum();
                let mut by_fold: $T = <$T>::zero();
                for t in &rel[..take] {
                    by_fold = &by_fold + t;
                }
                if !views_close(&view(&wrap(by_sum.clone())), &view(&wrap(by_fold.clone())), 1e-14) {
                    $v.fail("sum of related terms differs from adding them one by one", format!("first {} of [s0, s1*s0, 2 s0, s0, s0*s1, s1, s0+s1] with s0 = {:?}, s1 = {:?}: sum {:?}, fold {:?}", take, view(&wrap(seq[0].clone())), view(&wrap(seq[1].clone())), view(&wrap(by_sum)), view(&wrap(by_fold))));
                    return;
                }
            }
        }
        if seq.is_empty() && (s.real() != 0.0 || s.vars().len() != 0) {
            $v.fail("empty sum is not the variable-free zero", format!("{:?}", view(&wrap(s))));
            return;
        }
        // ---- identities
        let zero = <$T>::zero();
        let one = <$T>::one();
        let ids: [(&str, $T); 6] = [("x + 0", &a + &zero), ("0 + x", &zero + &a), ("x * 1", &a * &one), ("1 * x", &one * &a), ("x + 0.0", &a + 0.0), ("x * 1.0", &a * 1.0)];
        for (name, got) in ids {
            if !views_close(&view(&wrap(got.clone())), &va, 0.0) {
                $v.fail(format!("identity {} does not return x", name), format!("x = {:?}, got {:?}", va, view(&wrap(got))));
                return;
            }
        }
        if zero.real() != 0.0 || one.real() != 1.0 || zero.vars().len() != 0 || one.vars().len() != 0 {
            $v.fail("zero()/one() are not the variable-free constants", "".to_string());
            return;
        }
        // is_zero only for value 0 with all-zero derivatives
        let all_zero = x == 0.0 && va.1.values().all(|d| *d == 0.0) && va.2.values().all(|d| *d == 0.0);
        let z0: $T = $c.a.with_real(0.0).$mk();
        let vz = view(&wrap(z0.clone()));
        let z0_all_zero = vz.1.values().all(|d| *d == 0.0) && vz.2.values().all(|d| *d == 0.0);
        if a.is_zero() != all_zero || z0.is_zero() != z0_all_zero || !zero.is_zero() || one.is_zero() {
            $v.fail("is_zero is not 'value 0 and all derivatives 0'", format!("x = {:?}: {}, with value 0: {} (derivatives all zero: {})", va, a.is_zero(), z0.is_zero(), z0_all_zero));
            return;
        }
    }};
}

impl C19 {
    fn run(&self, c: &Case, v: &mut Verdict) {
        if c.kind % 2 == 1 {
            check_typed!(v, c, Dual, dual, |d: Dual| Number::Dual(d));
        } else {
            check_typed!(v, c, Dual2, dual2, |d: Dual2| Number::Dual2(d));
        }
    }
}

impl Property for C19 {
    type Case = Case;
    fn id(&self) -> &'static str {
        "C19"
    }

    fn check(&self, c: &Case) -> Verdict {
        let mut v = Verdict::new();
        let (x, y, f) = (c.a.real.0, c.b.real.0, c.f.0);
        v.label(if c.kind % 2 == 1 { "type:Dual" } else { "type:Dual2" });
        v.label(match (x < 0.0, y < 0.0) {
            (false, false) => "signs:a+b+",
            (true, false) => "signs:a-b+",
            (false, true) => "signs:a+b-",
            (true, true) => "signs:a-b-",
        });
        v.label_if(x == y, "values:equal");
        v.label_if(f < 0.0, "float:negative");
        v.label_if(c.seq.is_empty(), "sum:empty");
        v.label_if(c.rem_pairs.iter().any(|(p, q)| { let r = p.0 / q.0; (r - r.round()).abs() < 1e-12 && r != r.round() }), "remainder:quotient-a-hair-from-a-whole-number");
        v.label_if(c.special.iter().any(|(p, q)| p.0 == 0.0 && q.0 == 0.0 && p.0.is_sign_negative() != q.0.is_sign_negative()), "special:signed-zero-pair");
        v.label_if(c.special.iter().any(|(p, q)| p.0.is_nan() || q.0.is_nan()), "special:nan");
        v.nt(x < 0.0 || y < 0.0 || f < 0.0);
        match catch(|| {
            let mut vv = Verdict::new();
            self.run(c, &mut vv);
            vv
        }) {
            Ok(vv) => {
                if let Some(f) = vv.failure {
                    v.failure = Some(f);
                }
            }
            Err(p) => v.fail(format!("panic | {}", p.site()), p.message),
        }
        v
    }

    fn plan(&self, tier: Tier) -> Vec<Stage<Case>> {
        vec![Stage::random("random", tier.pick(500_000, 12_000_000), || {
            (1u8..=2, num_spec(), num_spec(), num_spec(), real_value(), proptest::collection::vec(num_spec(), 0..6), prop::bool::weighted(0.15), proptest::collection::vec((0usize..12, 0usize..12), 0..3), proptest::collection::vec((1u32..=60, 1u32..=99, 1u32..=4, any::<bool>(), -2i8..=2), 0..3)).prop_map(
                |(kind, a, mut b, a_alt, f, seq, equal, special, rem)| {
                    // divisor d / 10^j, dividend = the float closest to m * divisor written as a decimal,
                    // nudged by a few ulps either way
                    let rem_pairs = rem
                        .into_iter()
                        .map(|(m, d, j, neg, nudge)| {
                            let q = d as f64 / 10f64.powi(j as i32);
                            let p = (m as f64 * d as f64) / 10f64.powi(j as i32);
                            let p = f64::from_bits((p.to_bits() as i64 + nudge as i64) as u64);
                            (Fl(if neg { -p } else { p }), Fl(q))
                        })
                        .collect();
                    if equal {
                        b.real = a.real;
                    }
                    let special = special.into_iter().map(|(i, j)| (Fl(SPECIALS[i]), Fl(SPECIALS[j]))).collect();
                    Case { kind, a, b, a_alt, f, seq, special, rem_pairs }
                },
            )
        })]
    }

    fn rule(&self) -> String {
        "random (kind, two numbers with arbitrary derivative content and values of either sign incl. equal values, an alternative derivative content for the first, a float of either sign, a sequence of 0-5 numbers). Oracle: <,<=,>,>=,partial_cmp between numbers and with a float on either side == the float comparison of the values and unchanged when derivatives are replaced, also through the generic number container in all six operand positions (container/container, container/float container, container/float and the mirror images); a == b => Equal; 0-2 pairs from a table of special floats (signed zeros, NaN, infinities, neighbouring doubles, subnormals, MAX) compared in six operand forms against the float comparison; abs flips value and every derivative iff the value is negative; a % b, a % float, float % b == a - b*trunc(a/b) by name in value and derivatives (1e-12), the truncated quotient taken of the float quotient or of the exact one (the two readings differ by one when the float division rounds across a whole number); owned forms == reference forms; 0-2 remainder pairs built from decimals (dividend = m x divisor as written, nudged by 0-2 ulps: quotients a hair below or above a whole number); a sum of related terms (copies, scaled copies, products of earlier terms) == adding them one by one; sum == left fold from zero by name and identical through five kinds of iterator (filter, flat_map, skip_while/take_while, from_fn, owned), empty sum == variable-free zero; x+0, 0+x, x*1, 1*x == x by name; is_zero <=> value 0 and all derivatives 0. Non-trivial: a negative operand, divisor or float.".into()
    }

    fn floors(&self, tier: Tier) -> Vec<Floor> {
        let n = tier.pick(500_000u64, 12_000_000);
        vec![
            Floor { label: "signs:a+b+", min: n * 15 / 100 },
            Floor { label: "signs:a-b+", min: n * 15 / 100 },
            Floor { label: "signs:a+b-", min: n * 15 / 100 },
            Floor { label: "signs:a-b-", min: n * 15 / 100 },
            Floor { label: "values:equal", min: n / 20 },
            Floor { label: "sum:empty", min: n / 20 },
            Floor { label: "special:signed-zero-pair", min: n / 200 },
            Floor { label: "special:nan", min: n / 50 },
            Floor { label: "remainder:quotient-a-hair-from-a-whole-number", min: n / 50 },
        ]
    }

    fn assumptions(&self) -> Vec<String> {
        vec![
            "values are never zero except where a zero is constructed on purpose (abs at 0 is documented as undefined; divisors are non-zero)".into(),
            "`==` is not required to ignore derivatives (C03 defines it); only a == b => partial_cmp == Equal is asserted".into(),
        ]
    }
}
