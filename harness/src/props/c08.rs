//! C08 - Month arithmetic and roll-day rules follow calendar arithmetic.

use crate::engine::*;
use crate::gen::cal::*;
use crate::model::civil::*;
use crate::model::roll::Preds;
use crate::props::c04::{modifier_of, MOD_NAMES};
use crate::util::*;
use chrono::Datelike;
use proptest::prelude::*;
use rateslib::calendars::{get_eom, get_imm, get_roll, is_eom, is_imm, is_leap_year, DateRoll, RollDay};
use serde::{Deserialize, Serialize};

#[derive(Clone, Copy, Debug, Serialize, Deserialize, PartialEq)]
pub enum RollSpec {
    Unspecified,
    Int(u32),
    EoM,
    SoM,
    IMM,
}

impl RollSpec {
    pub fn build(self) -> RollDay {
        match self {
            RollSpec::Unspecified => RollDay::Unspecified {},
            RollSpec::Int(d) => RollDay::Int { day: d },
            RollSpec::EoM => RollDay::EoM {},
            RollSpec::SoM => RollDay::SoM {},
            RollSpec::IMM => RollDay::IMM {},
        }
    }
}

#[derive(Clone, Debug, Serialize, Deserialize)]
pub enum Case {
    AddMonths {
        cal: AnyCal,
        start: i64,
        months: i32,
        roll: RollSpec,
        modifier: u8,
        settlement: bool,
    },
    /// get_imm / get_eom / get_roll / is_leap_year for one (year, month)
    MonthTable { year: i32, month: u32 },
    /// is_imm / is_eom for one date
    DayPred { day: i64 },
}

pub struct C08;

const IDX_MIN: i64 = 1970 * 12;
const IDX_MAX: i64 = 2200 * 12 + 11;

fn roll_spec() -> impl Strategy<Value = RollSpec> {
    prop_oneof![
        3 => Just(RollSpec::Unspecified),
        4 => (1u32..=31).prop_map(RollSpec::Int),
        2 => prop::sample::select(vec![28u32, 29, 30, 31]).prop_map(RollSpec::Int),
        2 => Just(RollSpec::EoM),
        1 => Just(RollSpec::SoM),
        2 => Just(RollSpec::IMM),
    ]
}

fn start_day() -> impl Strategy<Value = i64> {
    prop_oneof![
        3 => DAY_MIN..=day_max(),
        // month ends (day 28-31) incl. leap and century years
        3 => (prop_oneof![3 => 1970i64..=2200, 1 => prop::sample::select(vec![2000i64, 2100, 2200, 1972, 2024, 2096, 2104])], 1u32..=12, 0u32..4)
            .prop_map(|(y, m, back)| days_from_civil(y, m, month_len(y, m)) - back as i64),
        1 => (1970i64..=2200).prop_map(|y| days_from_civil(y, 2, month_len(y, 2))),
    ]
}

#[derive(Clone, Debug)]
enum Delta {
    Small(i32),
    Years(i32),
    ToJanDec(i32, bool),
    Target(i64),
}

fn case_strategy() -> impl Strategy<Value = Case> {
    let delta = prop_oneof![
        4 => (-14i32..=14).prop_map(Delta::Small),
        2 => (-30i32..=30).prop_map(Delta::Years),
        2 => (-3i32..=3, any::<bool>()).prop_map(|(y, dec)| Delta::ToJanDec(y, dec)),
        3 => (IDX_MIN..=IDX_MAX).prop_map(Delta::Target),
    ];
    (
        start_day(),
        delta,
        roll_spec(),
        prop_oneof![3 => Just(0u8), 2 => 1u8..5],
        any::<bool>(),
        base_day(),
        any_cal_rel(45),
    )
        .prop_map(|(start, delta, roll, modifier, settlement, _b, cal)| {
            let (y, m, _) = civil_from_days(start);
            let idx = y * 12 + (m as i64 - 1);
            let target = match delta {
                Delta::Small(k) => idx + k as i64,
                Delta::Years(k) => idx + 12 * k as i64,
                // land exactly on January / December of a neighbouring year
                Delta::ToJanDec(dy, dec) => (y + dy as i64) * 12 + if dec { 11 } else { 0 },
                Delta::Target(t) => t,
            }
            .clamp(IDX_MIN, IDX_MAX);
            let months = (target - idx) as i32;
            // holidays are placed around the unadjusted target date so that adjustment matters
            let (ty, tm) = (target.div_euclid(12), (target.rem_euclid(12) + 1) as u32);
            let around = days_from_civil(ty, tm, 15);
            Case::AddMonths {
                cal: cal.shift(around),
                start,
                months,
                roll,
                modifier,
                settlement,
            }
        })
}

/// The unadjusted date the property describes.
pub fn model_unadjusted(start: i64, months: i64, roll: RollSpec) -> (i64, bool) {
    let (y, m, d) = civil_from_days(start);
    let idx = y * 12 + (m as i64 - 1) + months;
    let (ty, tm) = (idx.div_euclid(12), (idx.rem_euclid(12) + 1) as u32);
    let len = month_len(ty, tm);
    let (day, capped) = match roll {
        RollSpec::Unspecified => (d.min(len), d > len),
        RollSpec::Int(r) => (r.min(len), r > len),
        RollSpec::EoM => (len, false),
        RollSpec::SoM => (1, false),
        RollSpec::IMM => {
            let z = nth_weekday(ty, tm, 2, 3);
            return (z, false);
        }
    };
    (days_from_civil(ty, tm, day), capped)
}

impl Property for C08 {
    type Case = Case;
    fn id(&self) -> &'static str {
        "C08"
    }

    fn check(&self, c: &Case) -> Verdict {
        let mut v = Verdict::new();
        match c {
            Case::AddMonths { cal, start, months, roll, modifier, settlement } => {
                let calobj = cal.build_cached();
                let (unadj, capped) = model_unadjusted(*start, *months as i64, *roll);
                let bus = |z: i64| calobj.is_bus_day(&day_to_ndt(z));
                let settle = |z: i64| calobj.is_settlement(&day_to_ndt(z));
                let preds = Preds { bus: &bus, settle: &settle };
                let expected = match preds.roll(unadj, *modifier, *settlement) {
                    Ok(e) => e,
                    Err(_) => {
                        v.fail("generator | walk cap exceeded", "");
                        return v;
                    }
                };
                let (_, sm, _) = civil_from_days(*start);
                let rem = (*months as i64).signum() * ((*months as i64).abs() % 12);
                let total = sm as i64 + rem;
                v.label(match total {
                    t if t <= 0 => "carry:total<=0",
                    12 => "carry:total=12",
                    t if t >= 13 => "carry:total>=13",
                    _ => "carry:none",
                });
                v.label_if(capped, "day-capped");
                v.label_if(*months % 12 == 0, "months:multiple-of-12");
                v.label_if(*months < 0, "months:negative");
                v.label_if(*modifier != 0, "adjusted-modifier");
                v.label_if(expected != unadj, "adjustment-moved");
                v.label(match roll {
                    RollSpec::Unspecified => "roll:unspecified",
                    RollSpec::Int(_) => "roll:int",
                    RollSpec::EoM => "roll:eom",
                    RollSpec::SoM => "roll:som",
                    RollSpec::IMM => "roll:imm",
                });
                let (ty, tm, td) = civil_from_days(unadj);
                v.label_if(tm == 2 && td == 29, "target:feb29");
                v.label_if(tm == 1 || tm == 12, "target:jan-or-dec");
                let _ = ty;
                v.nt(capped || total <= 0 || total >= 13 || *months % 12 == 0);
                let got = match catch(|| {
                    calobj.add_months(&day_to_ndt(*start), *months, &modifier_of(*modifier), &roll.build(), *settlement)
                }) {
                    Ok(g) => g,
                    Err(p) => {
                        v.fail(
                            format!("add_months | panic | {}", p.site()),
                            format!("add_months({}, {}, {}, {:?}, {}) panicked: {}", fmt_day(*start), months, MOD_NAMES[*modifier as usize], roll, settlement, p.message),
                        );
                        return v;
                    }
                };
                if ndt_to_day(&got) != (expected, 0) {
                    v.fail(
                        if *modifier == 0 || expected == unadj { "add_months | wrong unadjusted date" } else { "add_months | wrong adjusted date" },
                        format!(
                            "add_months({}, {}, {}, {:?}, settlement={}) = {} but calendar arithmetic gives {} (unadjusted {})",
                            fmt_day(*start), months, MOD_NAMES[*modifier as usize], roll, settlement, fmt_ndt(&got), fmt_day(expected), fmt_day(unadj)
                        ),
                    );
                    return v;
                }
                // the same start date carried as a date-time (what datetime.now() passes in): the
                // result must fall on the same calendar date; its time of day is not asserted
                let secs = ((*start).wrapping_mul(7919) + *months as i64 * 31).rem_euclid(86_400);
                if secs != 0 {
                    v.label_if(secs >= 43_200, "start:afternoon-time-of-day");
                    let dt = day_to_ndt(*start) + chrono::Duration::seconds(secs);
                    match catch(|| calobj.add_months(&dt, *months, &modifier_of(*modifier), &roll.build(), *settlement)) {
                        Ok(g) => {
                            if ndt_to_day(&g).0 != expected {
                                v.fail(
                                    "add_months | a time of day on the start date changes the resulting date",
                                    format!("add_months({} + {} s, {}, {}, {:?}, settlement={}) = {} but from midnight {}", fmt_day(*start), secs, months, MOD_NAMES[*modifier as usize], roll, settlement, fmt_ndt(&g), fmt_day(expected)),
                                );
                            }
                        }
                        Err(p) => v.fail(format!("add_months | panic | {}", p.site()), format!("start {} + {} s: {}", fmt_day(*start), secs, p.message)),
                    }
                }
            }
            Case::MonthTable { year, month } => {
                let y = *year as i64;
                v.label("table:month");
                v.nt(true);
                let imm = nth_weekday(y, *month, 2, 3);
                let eom = days_from_civil(y, *month, month_len(y, *month));
                let r = catch(|| {
                    (
                        get_imm(*year, *month),
                        get_eom(*year, *month),
                        is_leap_year(*year),
                        get_roll(*year, *month, &RollDay::IMM {}),
                        get_roll(*year, *month, &RollDay::EoM {}),
                        get_roll(*year, *month, &RollDay::SoM {}),
                        get_roll(*year, *month, &RollDay::Unspecified {}),
                        (1u32..=31).map(|d| get_roll(*year, *month, &RollDay::Int { day: d })).collect::<Vec<_>>(),
                    )
                });
                let (gimm, geom, gleap, rimm, reom, rsom, runs, rint) = match r {
                    Ok(x) => x,
                    Err(p) => {
                        v.fail(format!("month tables | panic | {}", p.site()), format!("{}-{}: {}", year, month, p.message));
                        return v;
                    }
                };
                if ndt_to_day(&gimm) != (imm, 0) {
                    v.fail("get_imm | not the third Wednesday", format!("get_imm({}, {}) = {} expected {}", year, month, fmt_ndt(&gimm), fmt_day(imm)));
                }
                if ndt_to_day(&geom) != (eom, 0) {
                    v.fail("get_eom | not the last day", format!("get_eom({}, {}) = {} expected {}", year, month, fmt_ndt(&geom), fmt_day(eom)));
                }
                if gleap != is_leap(y) {
                    v.fail("is_leap_year | not Gregorian", format!("is_leap_year({}) = {}", year, gleap));
                }
                let chk = |v: &mut Verdict, name: &str, r: &Result<chrono::NaiveDateTime, pyo3::PyErr>, exp: i64| match r {
                    Ok(d) if ndt_to_day(d) == (exp, 0) => {}
                    Ok(d) => v.fail(format!("get_roll | wrong date | {}", name), format!("get_roll({}, {}, {}) = {} expected {}", year, month, name, fmt_ndt(d), fmt_day(exp))),
                    Err(_) => v.fail(format!("get_roll | unexpected error | {}", name), format!("get_roll({}, {}, {})", year, month, name)),
                };
                chk(&mut v, "IMM", &rimm, imm);
                chk(&mut v, "EoM", &reom, eom);
                chk(&mut v, "SoM", &rsom, days_from_civil(y, *month, 1));
                for (i, r) in rint.iter().enumerate() {
                    let d = (i as u32 + 1).min(month_len(y, *month));
                    chk(&mut v, "Int", r, days_from_civil(y, *month, d));
                }
                if runs.is_ok() {
                    v.fail("get_roll | unspecified accepted", "get_roll with RollDay::Unspecified must be an error");
                }
            }
            Case::DayPred { day } => {
                v.label("table:day");
                let (y, m, d) = civil_from_days(*day);
                let date = day_to_ndt(*day);
                // boundary sanity: chrono agrees with the civil model about what this day is
                if (date.year() as i64, date.month(), date.day()) != (y, m, d) {
                    v.fail("oracle-self-check | civil model disagrees with chrono", format!("day {}: model {}-{}-{}, chrono {}", day, y, m, d, date));
                    return v;
                }
                let imm = nth_weekday(y, m, 2, 3) == *day;
                let eom = d == month_len(y, m);
                v.nt(imm || eom);
                match catch(|| (is_imm(&date), is_eom(&date))) {
                    Ok((gi, ge)) => {
                        if gi != imm {
                            v.fail("is_imm | wrong", format!("is_imm({}) = {}", fmt_day(*day), gi));
                        }
                        if ge != eom {
                            v.fail("is_eom | wrong", format!("is_eom({}) = {}", fmt_day(*day), ge));
                        }
                    }
                    Err(p) => v.fail(format!("is_imm/is_eom | panic | {}", p.site()), p.message),
                }
            }
        }
        v
    }

    fn plan(&self, tier: Tier) -> Vec<Stage<Case>> {
        vec![
            Stage::random("add_months", tier.pick(400_000, 30_000_000), case_strategy),
            Stage::enumerate("month-tables", true, true, |k, n| {
                let r = chunk(231 * 12, k, n);
                Box::new(r.map(|i| Case::MonthTable { year: 1970 + (i / 12) as i32, month: (i % 12) as u32 + 1 }))
            }),
            Stage::enumerate("day-predicates", true, true, |k, n| {
                let r = chunk((day_max() - DAY_MIN + 1) as usize, k, n);
                Box::new(r.map(|i| Case::DayPred { day: DAY_MIN + i as i64 }))
            }),
        ]
    }

    fn rule(&self) -> String {
        "add_months stage: (start date over all month/day combinations with weight on days 28-31, leap and century years; month offset of either sign drawn as small (+-14), whole years, exact landings on January/December of a neighbouring year, or a uniform target month, always landing in 1970-2200; roll in {unspecified, 1..31, EoM, SoM, IMM}; modifier; settlement flag; calendar as in C04 with holidays around the target). Oracle: own Gregorian arithmetic (month index 12y+m, day capped at month length, third Wednesday) followed by the C04 reference walk. Side tables are enumerated completely: get_imm/get_eom/get_roll/is_leap_year for every (year, month) and is_imm/is_eom for every date of 1970-2200. Non-trivial: the day was capped, or a year carry/borrow happened, or the offset is a multiple of 12 (add_months); every table row; every date that is an IMM or month-end date. Every add_months case is repeated with the start date carried as a date-time (a time of day derived from the case, half of them in the afternoon): the resulting calendar date must be the same.".into()
    }

    fn floors(&self, tier: Tier) -> Vec<Floor> {
        let n = tier.pick(400_000u64, 30_000_000);
        vec![
            Floor { label: "carry:total<=0", min: n / 20 },
            Floor { label: "start:afternoon-time-of-day", min: n / 10 },
            Floor { label: "carry:total=12", min: n / 50 },
            Floor { label: "carry:total>=13", min: n / 20 },
            Floor { label: "day-capped", min: n / 50 },
            Floor { label: "target:feb29", min: n / 1000 },
            Floor { label: "months:multiple-of-12", min: n / 20 },
            Floor { label: "adjustment-moved", min: n / 50 },
        ]
    }

    fn assumptions(&self) -> Vec<String> {
        vec![
            "business-day adjustment after the month arithmetic is judged by the C04 reference walk over the calendar's own predicates".into(),
            "conversion between day numbers and NaiveDateTime goes through chrono's epoch-seconds constructor; the day-predicate stage cross-checks chrono's year/month/day against the independent civil model for every date of the range".into(),
        ]
    }
}
