//! C02 - Second-order automatic differentiation is exact and consistent with first order.

use crate::engine::*;
use crate::model::adeval::*;
use crate::props::adcommon::*;
use crate::props::c01::{fmt_vec, self_check};
use crate::util::*;
use proptest::prelude::*;
use rateslib::dual::{Dual, Dual2, Gradient1, Gradient2};
use serde::{Deserialize, Serialize};

#[derive(Clone, Debug, Serialize, Deserialize)]
pub struct Case {
    pub program: Program,
    /// requested variable list for the Hessian read-back: indices into the 8-name universe
    /// (may contain names the program never uses, in any order; duplicates are dropped)
    pub request: Vec<u8>,
}

pub struct C02;

impl Property for C02 {
    type Case = Case;
    fn id(&self) -> &'static str {
        "C02"
    }

    fn check(&self, c: &Case) -> Verdict {
        let mut v = Verdict::new();
        let p = &c.program;
        let x = p.xs();
        let n = x.len();
        let mut rewrites = 0;
        let e = sanitise_for(&p.expr, &x, &mut rewrites, 1.0);
        let plain = eval_f64(&e, &x);
        let jet = eval_jet(&e, &x);
        if !plain.is_finite() || !jet.bounds_finite(true) {
            v.label("skipped:non-finite");
            return v;
        }
        v.label_if(rewrites > 0, "sanitised");
        v.label_if(crate::props::c01::has_zero_base_pow(&e, &x), "pow:zero-base");
        let p_sane = Program { expr: e.clone(), ..p.clone() };
        let mut hits = Hits::default();
        let res = catch(|| {
            let leaves = on_dual2::leaves(&p_sane, false);
            on_dual2::eval(&e, &leaves, false, &mut hits)
        });
        let d2: Dual2 = match res {
            Ok(Val::D(d)) => d,
            Ok(Val::F(_)) => {
                v.label("variable-free");
                return v;
            }
            Err(pn) => {
                v.fail(format!("panic | {}", pn.site()), pn.message);
                return v;
            }
        };
        for h in &hits.0 {
            v.label(h);
        }
        let ops = e.operators();
        let cross = (0..n).any(|i| (0..n).any(|k| i != k && jet.h[i][k] != 0.0));
        v.nt(ops >= 2 && cross);
        v.label_if(cross && ops >= 3, "cross-terms-after-3-ops");

        // value and gradient against the reference
        if !((d2.real() - plain).abs() <= jet.vtol(1e-12)) {
            v.fail("value differs from plain float evaluation", format!("dual2 real = {:e}, f64 evaluation = {:e}", d2.real(), plain));
            return v;
        }
        let g2 = grad_by_name(&d2, n);
        for i in 0..n {
            if !((g2[i] - jet.g[i]).abs() <= jet.gtol(i, 1e-10)) {
                v.fail("gradient differs from the true partial derivative", format!("d/d{}: dual2 {:e}, reference {:e}; all {} vs {}", NAMES[i], g2[i], jet.g[i], fmt_vec(&g2), fmt_vec(&jet.g)));
                return v;
            }
        }
        // the same program on first-order numbers gives the same value and gradient
        let mut hits1 = Hits::default();
        match catch(|| {
            let leaves = on_dual::leaves(&p_sane, false);
            on_dual::eval(&e, &leaves, false, &mut hits1)
        }) {
            Ok(Val::D(d1)) => {
                let g1 = grad_by_name(&d1, n);
                if !((d1.real() - d2.real()).abs() <= jet.vtol(1e-12)) || (0..n).any(|i| !((g1[i] - g2[i]).abs() <= jet.gtol(i, 1e-10))) {
                    v.fail("second-order value/gradient differ from first-order evaluation", format!("Dual: {:e} {}; Dual2: {:e} {}", d1.real(), fmt_vec(&g1), d2.real(), fmt_vec(&g2)));
                    return v;
                }
                // conversion down: nothing lost but the Hessian
                let down = Dual::from(d2.clone());
                let down_ref = Dual::from(&d2);
                for (name, dn) in [("From<Dual2>", &down), ("From<&Dual2>", &down_ref)] {
                    let same_vars = var_names(dn) == var_names(&d2);
                    let same_dual = dn.dual().iter().zip(d2.dual().iter()).all(|(a, b)| a.to_bits() == b.to_bits()) && dn.dual().len() == d2.dual().len();
                    if dn.real().to_bits() != d2.real().to_bits() || !same_vars || !same_dual {
                        v.fail(format!("conversion to first order loses or alters content | {}", name), format!("Dual2 {:?} {:?} -> Dual {:?} {:?}", var_names(&d2), d2.dual(), var_names(dn), dn.dual()));
                        return v;
                    }
                }
            }
            Ok(Val::F(_)) => {}
            Err(pn) => {
                v.fail(format!("panic | first-order run | {}", pn.site()), pn.message);
                return v;
            }
        }
        // Hessian read back for the requested names
        let mut req: Vec<usize> = Vec::new();
        for r in &c.request {
            let r = (*r as usize) % NAMES.len();
            if !req.contains(&r) {
                req.push(r);
            }
        }
        if req.is_empty() {
            req = (0..n).collect();
        }
        v.label_if(req.iter().any(|r| *r >= n), "request:absent-name");
        let req_names: Vec<String> = req.iter().map(|r| Program::name(*r)).collect();
        let hm = match catch(|| d2.gradient2(req_names.clone())) {
            Ok(h) => h,
            Err(pn) => {
                v.fail(format!("panic | gradient2 | {}", pn.site()), pn.message);
                return v;
            }
        };
        if hm.dim() != (req.len(), req.len()) {
            v.fail("hessian has the wrong shape", format!("{:?} for {} requested names", hm.dim(), req.len()));
            return v;
        }
        for (a, ra) in req.iter().enumerate() {
            for (b, rb) in req.iter().enumerate() {
                let (exp, tol, symtol) = if *ra < n && *rb < n { (jet.h[*ra][*rb], jet.htol(*ra, *rb, 1e-9), jet.htol(*ra, *rb, 1e-13)) } else { (0.0, 0.0, 0.0) };
                if !((hm[[a, b]] - exp).abs() <= tol) {
                    v.fail(
                        "hessian differs from the true second partial derivative",
                        format!("d2/d{}d{}: dual2 {:e}, reference {:e} (tolerance {:e})", NAMES[*ra], NAMES[*rb], hm[[a, b]], exp, tol),
                    );
                    return v;
                }
                if ulps(hm[[a, b]], hm[[b, a]]) > 4 && !((hm[[a, b]] - hm[[b, a]]).abs() <= symtol) {
                    v.fail("hessian is not symmetric", format!("H[{}][{}] = {:e}, H[{}][{}] = {:e}", NAMES[*ra], NAMES[*rb], hm[[a, b]], NAMES[*rb], NAMES[*ra], hm[[b, a]]));
                    return v;
                }
            }
        }
        if (plain.to_bits() >> 7) % 50 == 0 && x.iter().all(|xi| xi.abs() >= 0.1 && xi.abs() <= 10.0) {
            v.label("reference-self-checked");
            if let Some(m) = self_check(&e, &x, &jet, true) {
                v.fail("oracle-self-check | reference disagrees with finite differences", m);
            }
        }
        v
    }

    fn plan(&self, tier: Tier) -> Vec<Stage<Case>> {
        vec![Stage::random("programs", tier.pick(800_000, 25_000_000), || {
            (program(), proptest::collection::vec(0u8..8, 0..6)).prop_map(|(program, request)| Case { program, request })
        })]
    }

    fn rule(&self) -> String {
        "the expression programs of C01 evaluated on second-order numbers (and on first-order numbers for comparison) plus a requested variable list (any order, subset or superset of the tagged names). Oracle: value and gradient as C01; gradient2(request) symmetric and equal to the reference Hessian restricted/reordered to the request within 1e-9 x the running error bound; the same program on Dual gives the same value and gradient; From<Dual2> / From<&Dual2> for Dual keep value, variable list and first derivatives bit-for-bit. Non-trivial: >= 2 operators and a non-zero Hessian entry between two different variables.".into()
    }

    fn floors(&self, tier: Tier) -> Vec<Floor> {
        let min = tier.pick(200u64, 5000);
        let mut f = Vec::new();
        for op in ["add", "sub", "mul", "div"] {
            for form in ["ref.ref", "own.ref", "ref.own", "own.own"] {
                for kinds in ["Dual2.Dual2", "Dual2.f64", "f64.Dual2"] {
                    f.push(Floor { label: intern(format!("bin:{}:{}:{}", op, form, kinds)), min });
                }
            }
        }
        for u in ["neg:ref:Dual2", "neg:own:Dual2", "abs:neg:Dual2", "abs:pos:Dual2", "exp:Dual2", "log:Dual2", "norm_cdf:Dual2", "inv_norm_cdf:Dual2", "pow:ref:Dual2", "pow:own:Dual2"] {
            f.push(Floor { label: u, min });
        }
        f.push(Floor { label: "cross-terms-after-3-ops", min: tier.pick(60_000, 2_000_000) });
        f.push(Floor { label: "request:absent-name", min: tier.pick(10_000, 200_000) });
        f.push(Floor { label: "pow:zero-base", min: tier.pick(500, 10_000) });
        f
    }

    fn assumptions(&self) -> Vec<String> {
        vec![
            "as C01; Hessian tolerance 1e-9 relative to the first-order running error bound of each entry".into(),
            "symmetry is demanded to 4 ulp (or 1e-13 of the entry's error scale): the stored half-Hessian is symmetrised explicitly by the library".into(),
        ]
    }
}
