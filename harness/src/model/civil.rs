//! Proleptic Gregorian calendar arithmetic written from scratch (Howard Hinnant's
//! days-from-civil algorithms, the anonymous Gregorian Easter computus), deliberately not
//! using chrono, so that it can serve as a reference for the library's date handling.
//! Days are counted from 1970-01-01 = 0.

pub fn is_leap(y: i64) -> bool {
    (y % 4 == 0 && y % 100 != 0) || y % 400 == 0
}

pub fn month_len(y: i64, m: u32) -> u32 {
    match m {
        1 | 3 | 5 | 7 | 8 | 10 | 12 => 31,
        4 | 6 | 9 | 11 => 30,
        2 => {
            if is_leap(y) {
                29
            } else {
                28
            }
        }
        _ => panic!("month out of range: {}", m),
    }
}

pub fn days_from_civil(y: i64, m: u32, d: u32) -> i64 {
    let y = if m <= 2 { y - 1 } else { y };
    let era = if y >= 0 { y } else { y - 399 } / 400;
    let yoe = y - era * 400; // [0, 399]
    let mp = (m as i64 + 9) % 12; // March = 0
    let doy = (153 * mp + 2) / 5 + d as i64 - 1; // [0, 365]
    let doe = yoe * 365 + yoe / 4 - yoe / 100 + doy; // [0, 146096]
    era * 146097 + doe - 719468
}

pub fn civil_from_days(z: i64) -> (i64, u32, u32) {
    let z = z + 719468;
    let era = if z >= 0 { z } else { z - 146096 } / 146097;
    let doe = z - era * 146097; // [0, 146096]
    let yoe = (doe - doe / 1460 + doe / 36524 - doe / 146096) / 365; // [0, 399]
    let y = yoe + era * 400;
    let doy = doe - (365 * yoe + yoe / 4 - yoe / 100); // [0, 365]
    let mp = (5 * doy + 2) / 153; // [0, 11]
    let d = (doy - (153 * mp + 2) / 5 + 1) as u32;
    let m = if mp < 10 { mp + 3 } else { mp - 9 } as u32;
    (if m <= 2 { y + 1 } else { y }, m, d)
}

/// 0 = Monday ... 6 = Sunday (1970-01-01 was a Thursday).
pub fn weekday(z: i64) -> u32 {
    (z + 3).rem_euclid(7) as u32
}

/// Easter Sunday (Gregorian), anonymous algorithm (Meeus/Jones/Butcher). Returns (month, day).
pub fn easter(y: i64) -> (u32, u32) {
    let a = y % 19;
    let b = y / 100;
    let c = y % 100;
    let d = b / 4;
    let e = b % 4;
    let f = (b + 8) / 25;
    let g = (b - f + 1) / 3;
    let h = (19 * a + b - d - g + 15) % 30;
    let i = c / 4;
    let k = c % 4;
    let l = (32 + 2 * e + 2 * i - h - k) % 7;
    let m = (a + 11 * h + 22 * l) / 451;
    let month = (h + l - 7 * m + 114) / 31;
    let day = (h + l - 7 * m + 114) % 31 + 1;
    (month as u32, day as u32)
}

/// Easter Sunday by Gauss's algorithm with the Gregorian corrections (second, independent
/// computus used as a self-check of `easter`). Returns the day number.
pub fn easter_gauss_days(y: i64) -> i64 {
    let a = y % 19;
    let b = y % 4;
    let c = y % 7;
    let k = y / 100;
    let p = (13 + 8 * k) / 25;
    let q = k / 4;
    let m = (15 - p + k - q).rem_euclid(30);
    let n = (4 + k - q).rem_euclid(7);
    let d = (19 * a + m) % 30;
    let e = (2 * b + 4 * c + 6 * d + n) % 7;
    let mut day = 22 + d + e; // March day number, may exceed 31
    if d == 29 && e == 6 {
        day = 50; // April 19
    } else if d == 28 && e == 6 && (11 * m + 11) % 30 < 19 {
        day = 49; // April 18
    }
    days_from_civil(y, 3, 1) + day - 1
}

pub fn easter_days(y: i64) -> i64 {
    let (m, d) = easter(y);
    days_from_civil(y, m, d)
}

/// The n-th (1-based) weekday `wd` (0 = Monday) of month (y, m), as a day number.
pub fn nth_weekday(y: i64, m: u32, wd: u32, n: u32) -> i64 {
    let first = days_from_civil(y, m, 1);
    let shift = (wd as i64 - weekday(first) as i64).rem_euclid(7);
    first + shift + 7 * (n as i64 - 1)
}

/// The last weekday `wd` of month (y, m).
pub fn last_weekday(y: i64, m: u32, wd: u32) -> i64 {
    let last = days_from_civil(y, m, month_len(y, m));
    let shift = (weekday(last) as i64 - wd as i64).rem_euclid(7);
    last - shift
}

pub const DAY_MIN: i64 = 0; // 1970-01-01
/// 2200-12-31
pub fn day_max() -> i64 {
    days_from_civil(2200, 12, 31)
}

#[cfg(test)]
mod tests {
    use super::*;
    #[test]
    fn roundtrip_and_known() {
        assert_eq!(days_from_civil(1970, 1, 1), 0);
        assert_eq!(weekday(0), 3);
        assert_eq!(civil_from_days(19723), (2024, 1, 1));
        assert_eq!(weekday(19723), 0);
        for z in -1000..100000 {
            let (y, m, d) = civil_from_days(z);
            assert_eq!(days_from_civil(y, m, d), z);
        }
        assert_eq!(easter(2024), (3, 31));
        assert_eq!(easter(2025), (4, 20));
        assert_eq!(easter(2019), (4, 21));
        for y in 1583..3000 {
            assert_eq!(easter_days(y), easter_gauss_days(y), "year {}", y);
        }
        assert_eq!(civil_from_days(nth_weekday(2024, 3, 2, 3)), (2024, 3, 20));
        assert_eq!(civil_from_days(last_weekday(2024, 5, 0)), (2024, 5, 27));
    }
}
