pub mod civil;
pub mod roll;
