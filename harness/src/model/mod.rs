pub mod adeval;
pub mod civil;
pub mod roll;
pub mod rules;
