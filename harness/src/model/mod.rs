pub mod adeval;
pub mod bspline;
pub mod civil;
pub mod interp;
pub mod roll;
pub mod rules;
