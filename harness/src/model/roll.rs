//! Reference date adjustment and business-day counting by plain day-by-day walks over two
//! predicates (business day, settlement day). Works on day numbers only.

pub const WALK_CAP: i64 = 4000;

#[derive(Debug)]
pub struct WalkOverflow;

pub struct Preds<'a> {
    pub bus: &'a dyn Fn(i64) -> bool,
    pub settle: &'a dyn Fn(i64) -> bool,
}

impl<'a> Preds<'a> {
    pub fn eligible(&self, z: i64, settlement: bool) -> bool {
        (self.bus)(z) && (!settlement || (self.settle)(z))
    }

    /// first eligible day >= z (dir = +1) or <= z (dir = -1)
    pub fn nearest(&self, z: i64, dir: i64, settlement: bool) -> Result<i64, WalkOverflow> {
        let mut d = z;
        for _ in 0..WALK_CAP {
            if self.eligible(d, settlement) {
                return Ok(d);
            }
            d += dir;
        }
        Err(WalkOverflow)
    }

    /// modifier: 0 Act, 1 F, 2 ModF, 3 P, 4 ModP
    pub fn roll(&self, z: i64, modifier: u8, settlement: bool) -> Result<i64, WalkOverflow> {
        use crate::model::civil::civil_from_days;
        let ym = |d: i64| {
            let (y, m, _) = civil_from_days(d);
            (y, m)
        };
        Ok(match modifier {
            0 => z,
            1 => self.nearest(z, 1, settlement)?,
            3 => self.nearest(z, -1, settlement)?,
            2 => {
                let f = self.nearest(z, 1, settlement)?;
                if ym(f) != ym(z) {
                    self.nearest(z, -1, settlement)?
                } else {
                    f
                }
            }
            4 => {
                let p = self.nearest(z, -1, settlement)?;
                if ym(p) != ym(z) {
                    self.nearest(z, 1, settlement)?
                } else {
                    p
                }
            }
            _ => unreachable!(),
        })
    }

    /// The |n|-th business day strictly after (n > 0) / before (n < 0) z; z itself for n = 0.
    pub fn nth_bus(&self, z: i64, n: i64) -> Result<i64, WalkOverflow> {
        let dir = if n >= 0 { 1 } else { -1 };
        let mut left = n.abs();
        let mut d = z;
        let mut steps = 0;
        while left > 0 {
            d += dir;
            steps += 1;
            if steps > WALK_CAP {
                return Err(WalkOverflow);
            }
            if (self.bus)(d) {
                left -= 1;
            }
        }
        Ok(d)
    }

    /// add n business days to the business day z, then move on to a settleable business day.
    pub fn add_bus(&self, z: i64, n: i64, settlement: bool) -> Result<i64, WalkOverflow> {
        let d = self.nth_bus(z, n)?;
        let dir = if n >= 0 { 1 } else { -1 };
        self.nearest(d, dir, settlement)
    }
}
