//! Reference curve interpolation: linear-scan interval choice and the closed forms of the five
//! rules with their first and second partial derivatives with respect to the two node values
//! of the interval in use.

#[derive(Clone, Copy, Debug, PartialEq, Eq)]
pub enum Rule {
    Linear,
    LogLinear,
    LinearZeroRate,
    FlatForward,
    FlatBackward,
}

pub const RULES: [Rule; 5] = [Rule::Linear, Rule::LogLinear, Rule::LinearZeroRate, Rule::FlatForward, Rule::FlatBackward];

impl Rule {
    pub fn name(self) -> &'static str {
        match self {
            Rule::Linear => "linear",
            Rule::LogLinear => "log_linear",
            Rule::LinearZeroRate => "linear_zero_rate",
            Rule::FlatForward => "flat_forward",
            Rule::FlatBackward => "flat_backward",
        }
    }
}

/// The interval used for x: the one whose right end is the first node on or after x, clamped
/// to the first and last intervals. `times` sorted ascending, at least 2 entries.
pub fn interval(times: &[i64], x: i64) -> usize {
    let n = times.len();
    let first_ge = times.iter().position(|t| *t >= x).unwrap_or(n);
    first_ge.saturating_sub(1).min(n - 2)
}

pub struct Local {
    pub index: usize,
    pub value: f64,
    /// dV/dy_left, dV/dy_right
    pub d1: [f64; 2],
    /// second partials [[ll, lr], [rl, rr]]
    pub d2: [[f64; 2]; 2],
    /// conditioning of the rule at this point: the relative rounding error of a float
    /// evaluation is about machine epsilon times this factor (>= 1). Large for extrapolation
    /// far outside the nodes and for zero-rate interpolation with a very short first interval
    /// (rates = -ln(y)/t with tiny t are huge and are multiplied back by a long time).
    pub cond: f64,
}

fn power_form(y1: f64, y2: f64, a: f64, b: f64) -> (f64, [f64; 2], [[f64; 2]; 2]) {
    // V = y1^a * y2^b
    let v = (a * y1.ln() + b * y2.ln()).exp();
    let d1 = [a * v / y1, b * v / y2];
    let d12 = a * b * v / (y1 * y2);
    let d2 = [[a * (a - 1.0) * v / (y1 * y1), d12], [d12, b * (b - 1.0) * v / (y2 * y2)]];
    (v, d1, d2)
}

pub fn evaluate(rule: Rule, times: &[i64], values: &[f64], x: i64) -> Local {
    let index = interval(times, x);
    let (x1, x2) = (times[index] as f64, times[index + 1] as f64);
    let (y1, y2) = (values[index], values[index + 1]);
    let xf = x as f64;
    let zero2 = [[0.0; 2]; 2];
    let mut cond = 1.0;
    let (value, d1, d2) = match rule {
        Rule::Linear => {
            let w = (xf - x1) / (x2 - x1);
            let v = y1 + (y2 - y1) * w;
            cond = 1.0 + (y1.abs() + (y2 - y1).abs() * w.abs()) / v.abs().max(1e-300);
            (v, [1.0 - w, w], zero2)
        }
        Rule::LogLinear => {
            let w = (xf - x1) / (x2 - x1);
            // each logarithm carries its own rounding error, and the difference of the two is scaled
            // by |w| (large when extrapolating far beyond a short interval)
            cond = 1.0 + y1.ln().abs() * (1.0 + w.abs()) + y2.ln().abs() * w.abs();
            power_form(y1, y2, 1.0 - w, w)
        }
        Rule::LinearZeroRate => {
            let x0 = times[0] as f64;
            let (t1, t2, t) = (x1 - x0, x2 - x0, xf - x0);
            if index == 0 {
                // first node presumed 1: flat zero rate of the second node over the first interval
                // (the exponent t/t2 carries its own rounding error whatever ln y is - all-ones
                // curves have ln y = 0 - so |ln y| is floored at 0.01 for the conditioning)
                cond = 1.0 + y2.ln().abs().max(0.01) * (t / t2).abs();
                power_form(y1, y2, 0.0, t / t2)
            } else {
                let w = (t - t1) / (t2 - t1);
                let (r1, r2) = (y1.ln().abs().max(0.01) / t1, y2.ln().abs().max(0.01) / t2);
                cond = 1.0 + t.abs() * (r1 * (1.0 + w.abs()) + r2 * w.abs());
                power_form(y1, y2, (1.0 - w) * t / t1, w * t / t2)
            }
        }
        Rule::FlatForward => {
            if x >= times[index + 1] {
                (y2, [0.0, 1.0], zero2)
            } else {
                (y1, [1.0, 0.0], zero2)
            }
        }
        Rule::FlatBackward => {
            if x <= times[index] {
                (y1, [1.0, 0.0], zero2)
            } else {
                (y2, [0.0, 1.0], zero2)
            }
        }
    };
    Local { index, value, d1, d2, cond }
}
