//! Expression programs over the operators the AD types support, a deterministic sanitiser
//! that keeps every intermediate inside the differentiable domain, plain `f64` evaluation, and
//! an independent dense forward-mode reference (value, gradient, Hessian) with magnitude
//! accumulators that give a sound error scale.

use crate::util::Fl;
use rateslib::dual::MathFuncs;
use serde::{Deserialize, Serialize};

#[derive(Clone, Copy, Debug, Serialize, Deserialize, PartialEq, Eq)]
pub enum Op {
    Add,
    Sub,
    Mul,
    Div,
}

/// Ownership form of a binary operation: which operands are passed by reference.
#[derive(Clone, Copy, Debug, Serialize, Deserialize, PartialEq, Eq)]
pub enum Form {
    RefRef,
    OwnRef,
    RefOwn,
    OwnOwn,
}

#[derive(Clone, Debug, Serialize, Deserialize)]
pub enum Expr {
    Var(usize),
    Const(Fl),
    /// negation; `true` = by reference (`-&a`)
    Neg(Box<Expr>, bool),
    Abs(Box<Expr>),
    Exp(Box<Expr>),
    Log(Box<Expr>),
    NormCdf(Box<Expr>),
    InvNormCdf(Box<Expr>),
    /// real power; `true` = by reference (`(&a).pow(p)`)
    Pow(Box<Expr>, Fl, bool),
    Bin(Op, Form, Box<Expr>, Box<Expr>),
}

impl Expr {
    pub fn nodes(&self) -> usize {
        match self {
            Expr::Var(_) | Expr::Const(_) => 1,
            Expr::Neg(e, _) | Expr::Abs(e) | Expr::Exp(e) | Expr::Log(e) | Expr::NormCdf(e) | Expr::InvNormCdf(e) | Expr::Pow(e, _, _) => 1 + e.nodes(),
            Expr::Bin(_, _, l, r) => 1 + l.nodes() + r.nodes(),
        }
    }
    pub fn operators(&self) -> usize {
        match self {
            Expr::Var(_) | Expr::Const(_) => 0,
            Expr::Neg(e, _) | Expr::Abs(e) | Expr::Exp(e) | Expr::Log(e) | Expr::NormCdf(e) | Expr::InvNormCdf(e) | Expr::Pow(e, _, _) => 1 + e.operators(),
            Expr::Bin(_, _, l, r) => 1 + l.operators() + r.operators(),
        }
    }
    pub fn depth(&self) -> usize {
        match self {
            Expr::Var(_) | Expr::Const(_) => 0,
            Expr::Neg(e, _) | Expr::Abs(e) | Expr::Exp(e) | Expr::Log(e) | Expr::NormCdf(e) | Expr::InvNormCdf(e) | Expr::Pow(e, _, _) => 1 + e.depth(),
            Expr::Bin(_, _, l, r) => 1 + l.depth().max(r.depth()),
        }
    }
    /// is the sub-expression free of variables (evaluated on plain floats by the interpreter)?
    pub fn is_const(&self) -> bool {
        match self {
            Expr::Var(_) => false,
            Expr::Const(_) => true,
            Expr::Neg(e, _) | Expr::Abs(e) | Expr::Exp(e) | Expr::Log(e) | Expr::NormCdf(e) | Expr::InvNormCdf(e) | Expr::Pow(e, _, _) => e.is_const(),
            Expr::Bin(_, _, l, r) => l.is_const() && r.is_const(),
        }
    }
    pub fn vars_used(&self, out: &mut Vec<usize>) {
        match self {
            Expr::Var(i) => {
                if !out.contains(i) {
                    out.push(*i)
                }
            }
            Expr::Const(_) => {}
            Expr::Neg(e, _) | Expr::Abs(e) | Expr::Exp(e) | Expr::Log(e) | Expr::NormCdf(e) | Expr::InvNormCdf(e) | Expr::Pow(e, _, _) => e.vars_used(out),
            Expr::Bin(_, _, l, r) => {
                l.vars_used(out);
                r.vars_used(out);
            }
        }
    }
}

// ---------------------------------------------------------------------------------------------
// plain f64 evaluation (same operations the library applies to real parts)

/// the float inverse normal cdf panics outside [0, 1] (and on NaN); such points are outside the
/// domain and the caller skips them when it sees the NaN
pub fn safe_inv_norm_cdf(p: f64) -> f64 {
    if (0.0..=1.0).contains(&p) {
        MathFuncs::inv_norm_cdf(&p)
    } else {
        f64::NAN
    }
}

pub fn eval_f64(e: &Expr, x: &[f64]) -> f64 {
    match e {
        Expr::Var(i) => x[*i],
        Expr::Const(c) => c.0,
        Expr::Neg(a, _) => -eval_f64(a, x),
        Expr::Abs(a) => eval_f64(a, x).abs(),
        Expr::Exp(a) => eval_f64(a, x).exp(),
        Expr::Log(a) => eval_f64(a, x).ln(),
        Expr::NormCdf(a) => MathFuncs::norm_cdf(&eval_f64(a, x)),
        Expr::InvNormCdf(a) => safe_inv_norm_cdf(eval_f64(a, x)),
        Expr::Pow(a, p, _) => eval_f64(a, x).powf(p.0),
        Expr::Bin(op, _, l, r) => {
            let (a, b) = (eval_f64(l, x), eval_f64(r, x));
            match op {
                Op::Add => a + b,
                Op::Sub => a - b,
                Op::Mul => a * b,
                Op::Div => a / b,
            }
        }
    }
}

// ---------------------------------------------------------------------------------------------
// sanitiser

fn sq_plus(e: Expr, c: f64) -> Expr {
    // e*e + c, written with by-reference forms
    Expr::Bin(
        Op::Add,
        Form::OwnOwn,
        Box::new(Expr::Bin(Op::Mul, Form::RefRef, Box::new(e.clone()), Box::new(e))),
        Box::new(Expr::Const(Fl(c))),
    )
}

/// Rewrite sub-expressions that would leave the differentiable domain (or blow up) at the
/// point `x` into safe forms. Deterministic; returns the rewritten tree and the number of
/// rewrites applied.
pub fn sanitise(e: &Expr, x: &[f64], rewrites: &mut usize) -> Expr {
    sanitise_for(e, x, rewrites, 1.0)
}

/// `min_int_power`: the smallest integer power that is allowed on an arbitrary (zero, negative)
/// base: 1 when only first derivatives are judged, 2 when second derivatives are judged too.
pub fn sanitise_for(e: &Expr, x: &[f64], rewrites: &mut usize, min_int_power: f64) -> Expr {
    let s = |a: &Expr, rw: &mut usize| sanitise_for(a, x, rw, min_int_power);
    let out = match e {
        Expr::Var(_) | Expr::Const(_) => e.clone(),
        Expr::Neg(a, r) => Expr::Neg(Box::new(s(a, rewrites)), *r),
        Expr::Abs(a) => {
            let a = s(a, rewrites);
            if eval_f64(&a, x).abs() < 1e-3 {
                *rewrites += 1;
                Expr::Abs(Box::new(sq_plus(a, 0.5)))
            } else {
                Expr::Abs(Box::new(a))
            }
        }
        Expr::Exp(a) => {
            let a = s(a, rewrites);
            let va = eval_f64(&a, x);
            if va > 6.0 {
                *rewrites += 1;
                Expr::Exp(Box::new(Expr::NormCdf(Box::new(a))))
            } else if va < -120.0 {
                // exp(-700) is subnormal: the node's own derivative products would be quantised
                // before the magnitude clamp below can scale the node back. Scale the argument
                // into [-120, -60] instead (a power of two, exact)
                *rewrites += 1;
                let j = (va.abs() / 100.0).log2().ceil();
                Expr::Exp(Box::new(Expr::Bin(Op::Mul, Form::OwnOwn, Box::new(a), Box::new(Expr::Const(Fl(2f64.powf(-j)))))))
            } else {
                Expr::Exp(Box::new(a))
            }
        }
        Expr::Log(a) => {
            let a = s(a, rewrites);
            if eval_f64(&a, x) < 0.05 {
                *rewrites += 1;
                Expr::Log(Box::new(sq_plus(a, 1.0)))
            } else {
                Expr::Log(Box::new(a))
            }
        }
        Expr::NormCdf(a) => {
            let a = s(a, rewrites);
            let va = eval_f64(&a, x);
            if va < -25.0 {
                // Phi(-38) is subnormal as well: same treatment
                *rewrites += 1;
                let j = (va.abs() / 20.0).log2().ceil();
                Expr::NormCdf(Box::new(Expr::Bin(Op::Mul, Form::OwnOwn, Box::new(a), Box::new(Expr::Const(Fl(2f64.powf(-j)))))))
            } else {
                Expr::NormCdf(Box::new(a))
            }
        }
        Expr::InvNormCdf(a) => {
            let a = s(a, rewrites);
            let v = eval_f64(&a, x);
            if !(0.02..=0.98).contains(&v) {
                *rewrites += 1;
                // 0.05 + 0.9 * Phi(a)
                Expr::InvNormCdf(Box::new(Expr::Bin(
                    Op::Add,
                    Form::OwnOwn,
                    Box::new(Expr::Const(Fl(0.05))),
                    Box::new(Expr::Bin(Op::Mul, Form::OwnOwn, Box::new(Expr::Const(Fl(0.9))), Box::new(Expr::NormCdf(Box::new(a))))),
                )))
            } else {
                Expr::InvNormCdf(Box::new(a))
            }
        }
        Expr::Pow(a, p, r) => {
            let a = s(a, rewrites);
            let v = eval_f64(&a, x);
            // x^p is (twice) differentiable everywhere - also at zero and for negative x - when p
            // is an integer >= `min_int_power`; otherwise the base must be positive
            let everywhere = p.0.fract() == 0.0 && (p.0 >= min_int_power || p.0 == 0.0);
            let ok = everywhere || v >= 0.05;
            if ok {
                Expr::Pow(Box::new(a), *p, *r)
            } else {
                *rewrites += 1;
                Expr::Pow(Box::new(sq_plus(a, 1.0)), *p, *r)
            }
        }
        Expr::Bin(op, f, l, r) => {
            let l = s(l, rewrites);
            let mut r = s(r, rewrites);
            if *op == Op::Div && eval_f64(&r, x).abs() < 0.05 {
                *rewrites += 1;
                r = sq_plus(r, 1.0);
            }
            Expr::Bin(*op, *f, Box::new(l), Box::new(r))
        }
    };
    // magnitude clamp: scale an over-large or vanishingly small (but non-zero) node back by a
    // power of two, so that no intermediate overflows or drifts into the subnormal range (where
    // relative error bounds do not hold); exact zeros are kept - they are in the domain
    let v = eval_f64(&out, x);
    if v.is_finite() && v.abs() > 1.0e12 {
        *rewrites += 1;
        let k = (v.abs() / 100.0).log2().ceil();
        return Expr::Bin(Op::Mul, Form::OwnOwn, Box::new(out), Box::new(Expr::Const(Fl(2f64.powf(-k)))));
    }
    if v != 0.0 && v.abs() < 1.0e-60 {
        *rewrites += 1;
        let k = (0.01 / v.abs()).log2().floor();
        return Expr::Bin(Op::Mul, Form::OwnOwn, Box::new(out), Box::new(Expr::Const(Fl(2f64.powf(k)))));
    }
    out
}

// ---------------------------------------------------------------------------------------------
// dense forward-mode reference

/// value, gradient, Hessian (true second derivatives, no 1/2 convention) plus first-order
/// running error bounds `vmag`, `gmag`, `hmag`: the absolute error of a floating-point
/// evaluation of each quantity is bounded by (a small multiple of machine epsilon) x these
/// numbers. They follow the standard recurrences: the error of f(u) is |f'(u)| x error(u) plus
/// the local rounding |f(u)|, and likewise for the derivative formulas (which is why third
/// derivatives of the elementary functions appear). Ill-conditioned steps such as log near 1
/// or cancelling subtractions therefore widen the tolerance exactly as much as they amplify
/// legitimate rounding differences, and no more.
#[derive(Clone, Debug)]
pub struct Jet {
    pub v: f64,
    pub g: Vec<f64>,
    pub h: Vec<Vec<f64>>,
    pub vmag: f64,
    pub gmag: Vec<f64>,
    pub hmag: Vec<Vec<f64>>,
    /// loose magnitudes (every quantity replaced by its bound): they bound the *second-order*
    /// error terms - products of two rounding errors - which the first-order bounds above miss
    /// when a factor happens to be exactly zero at the evaluation point. Used only as an
    /// absolute floor scaled by ~eps^2.
    pub vl: f64,
    pub gl: Vec<f64>,
    pub hl: Vec<Vec<f64>>,
    /// absolute uncertainty inherited from the float implementation of the normal cdf (see
    /// PHI_IMPL_ACCURACY), propagated through later steps by the same first-order rules
    pub va: f64,
    pub ga: Vec<f64>,
    pub ha: Vec<Vec<f64>>,
}

/// Quantities this small may have passed through subnormal intermediates (for example squared
/// normal densities), where relative error bounds no longer hold.
pub const UNDERFLOW_FLOOR: f64 = 1e-280;

/// Third and higher order rounding terms (a cube of a quantity that is exactly zero in exact
/// arithmetic but one rounding error in floats is ~1e-48): an absolute floor far below anything
/// a defect could hide in.
pub const HIGHER_ORDER_FLOOR: f64 = 1e-36;

/// The float implementation of the standard normal cdf used by the library (statrs' erfc) is
/// piecewise and has jumps of up to 2.5e-11 between neighbouring doubles at its branch points
/// (arguments +-0.5*sqrt2, +-0.75*sqrt2, +-1.25*sqrt2, ...; measured). Two evaluations whose
/// arguments differ in the last bit can therefore differ by that much in value; this is a
/// property of the float function, not of the dual numbers, and is allowed for explicitly.
pub const PHI_IMPL_ACCURACY: f64 = 5e-11;

impl Jet {
    fn constant(c: f64, n: usize) -> Jet {
        Jet {
            v: c,
            g: vec![0.0; n],
            h: vec![vec![0.0; n]; n],
            vmag: c.abs(),
            gmag: vec![0.0; n],
            hmag: vec![vec![0.0; n]; n],
            vl: c.abs(),
            gl: vec![0.0; n],
            hl: vec![vec![0.0; n]; n],
            va: 0.0,
            ga: vec![0.0; n],
            ha: vec![vec![0.0; n]; n],
        }
    }
    fn var(i: usize, x: f64, n: usize) -> Jet {
        let mut j = Jet::constant(x, n);
        j.g[i] = 1.0;
        j.gmag[i] = 1.0;
        j.gl[i] = 1.0;
        j
    }
    /// are all error bounds finite (otherwise the case is outside what the tolerance model covers)?
    pub fn bounds_finite(&self, second: bool) -> bool {
        let ok = |x: &f64| x.is_finite() && x.abs() < 1e200;
        ok(&self.v) && ok(&self.vmag) && ok(&self.vl) && ok(&self.va)
            && self.g.iter().chain(&self.gmag).chain(&self.gl).chain(&self.ga).all(ok)
            && (!second || self.h.iter().chain(&self.hmag).chain(&self.hl).chain(&self.ha).flatten().all(ok))
    }
    pub fn vtol(&self, rel: f64) -> f64 {
        rel * self.vmag + 1e-26 * self.vl + self.va + HIGHER_ORDER_FLOOR * (1.0 + self.vl) + UNDERFLOW_FLOOR
    }
    pub fn gtol(&self, i: usize, rel: f64) -> f64 {
        rel * self.gmag[i] + 1e-24 * self.gl[i] + self.ga[i] + HIGHER_ORDER_FLOOR * (1.0 + self.gl[i]) + UNDERFLOW_FLOOR
    }
    pub fn htol(&self, i: usize, k: usize, rel: f64) -> f64 {
        rel * self.hmag[i][k] + 1e-22 * self.hl[i][k] + self.ha[i][k] + HIGHER_ORDER_FLOOR * (1.0 + self.hl[i][k]) + UNDERFLOW_FLOOR
    }
    /// chain rule for a scalar function with value f0 and derivatives f1, f2, f3 at u
    fn unary(u: &Jet, f0: f64, f1: f64, f2: f64, f3: f64) -> Jet {
        let n = u.g.len();
        let mut o = Jet::constant(f0, n);
        let (a1, a2, a3) = (f1.abs(), f2.abs(), f3.abs());
        o.vmag = f0.abs() + a1 * u.vmag;
        // (third order: where f' = f'' = 0 - a cube at an exactly-zero base - the error of the argument
        // enters cubed; folded in with a factor that turns the eps^2 scale of `vl` into eps^3)
        o.vl = f0.abs() + a1 * u.vl + a2 * u.vl * u.vl + 1e-13 * a3 * u.vl * u.vl * u.vl / 6.0;
        o.va = a1 * u.va;
        for i in 0..n {
            o.ga[i] = a1 * u.ga[i] + a2 * u.va * u.g[i].abs();
            for k in 0..n {
                o.ha[i][k] = a1 * u.ha[i][k] + a2 * u.va * u.h[i][k].abs() + a2 * (u.ga[i] * u.g[k].abs() + u.g[i].abs() * u.ga[k]) + a3 * u.va * (u.g[i] * u.g[k]).abs();
            }
        }
        for i in 0..n {
            // (Taylor terms up to the third derivative: at a point where f' = f'' = 0 - a cube at an
            // exactly-zero base - the error of the argument enters squared through f''')
            o.gl[i] = (a1 + a2 * u.vl + 0.5 * a3 * u.vl * u.vl) * u.gl[i];
            for k in 0..n {
                o.hl[i][k] = (a1 + a2 * u.vl + 0.5 * a3 * u.vl * u.vl) * u.hl[i][k] + (2.0 * a2 + a3 * u.vl) * u.gl[i] * u.gl[k];
            }
        }
        for i in 0..n {
            o.g[i] = f1 * u.g[i];
            o.gmag[i] = a1 * u.gmag[i] + a2 * u.vmag * u.g[i].abs() + o.g[i].abs();
            for k in 0..n {
                o.h[i][k] = f1 * u.h[i][k] + f2 * u.g[i] * u.g[k];
                o.hmag[i][k] = a1 * u.hmag[i][k]
                    + a2 * u.vmag * u.h[i][k].abs()
                    + a2 * (u.gmag[i] * u.g[k].abs() + u.g[i].abs() * u.gmag[k])
                    + a3 * u.vmag * (u.g[i] * u.g[k]).abs()
                    + o.h[i][k].abs();
            }
        }
        o
    }
    fn add(a: &Jet, b: &Jet, sign: f64) -> Jet {
        let n = a.g.len();
        let mut o = Jet::constant(a.v + sign * b.v, n);
        o.vmag = a.vmag + b.vmag;
        o.vl = a.vl + b.vl;
        o.va = a.va + b.va;
        for i in 0..n {
            o.ga[i] = a.ga[i] + b.ga[i];
            for k in 0..n {
                o.ha[i][k] = a.ha[i][k] + b.ha[i][k];
            }
        }
        for i in 0..n {
            o.gl[i] = a.gl[i] + b.gl[i];
            for k in 0..n {
                o.hl[i][k] = a.hl[i][k] + b.hl[i][k];
            }
        }
        for i in 0..n {
            o.g[i] = a.g[i] + sign * b.g[i];
            o.gmag[i] = a.gmag[i] + b.gmag[i];
            for k in 0..n {
                o.h[i][k] = a.h[i][k] + sign * b.h[i][k];
                o.hmag[i][k] = a.hmag[i][k] + b.hmag[i][k];
            }
        }
        o
    }
    fn mul(a: &Jet, b: &Jet) -> Jet {
        let n = a.g.len();
        let mut o = Jet::constant(a.v * b.v, n);
        let (av, bv) = (a.v.abs(), b.v.abs());
        o.vmag = av * b.vmag + a.vmag * bv + o.v.abs();
        o.vl = 2.0 * a.vl * b.vl;
        o.va = av * b.va + a.va * bv;
        for i in 0..n {
            o.ga[i] = a.ga[i] * bv + a.g[i].abs() * b.va + a.va * b.g[i].abs() + av * b.ga[i];
            for k in 0..n {
                o.ha[i][k] = a.ha[i][k] * bv
                    + a.h[i][k].abs() * b.va
                    + a.ga[i] * b.g[k].abs()
                    + a.g[i].abs() * b.ga[k]
                    + a.ga[k] * b.g[i].abs()
                    + a.g[k].abs() * b.ga[i]
                    + a.va * b.h[i][k].abs()
                    + av * b.ha[i][k];
            }
        }
        for i in 0..n {
            o.gl[i] = 2.0 * (a.gl[i] * b.vl + a.vl * b.gl[i]);
            for k in 0..n {
                o.hl[i][k] = 2.0 * (a.hl[i][k] * b.vl + a.gl[i] * b.gl[k] + a.gl[k] * b.gl[i] + a.vl * b.hl[i][k]);
            }
        }
        for i in 0..n {
            o.g[i] = a.g[i] * b.v + a.v * b.g[i];
            o.gmag[i] = a.gmag[i] * bv + a.g[i].abs() * b.vmag + a.vmag * b.g[i].abs() + av * b.gmag[i] + o.g[i].abs();
            for k in 0..n {
                o.h[i][k] = a.h[i][k] * b.v + a.g[i] * b.g[k] + a.g[k] * b.g[i] + a.v * b.h[i][k];
                o.hmag[i][k] = a.hmag[i][k] * bv
                    + a.h[i][k].abs() * b.vmag
                    + a.gmag[i] * b.g[k].abs()
                    + a.g[i].abs() * b.gmag[k]
                    + a.gmag[k] * b.g[i].abs()
                    + a.g[k].abs() * b.gmag[i]
                    + a.vmag * b.h[i][k].abs()
                    + av * b.hmag[i][k]
                    + o.h[i][k].abs();
            }
        }
        o
    }
}

fn phi(x: f64) -> f64 {
    (-0.5 * x * x).exp() / (2.0 * std::f64::consts::PI).sqrt()
}

pub fn eval_jet(e: &Expr, x: &[f64]) -> Jet {
    let n = x.len();
    match e {
        Expr::Var(i) => Jet::var(*i, x[*i], n),
        Expr::Const(c) => Jet::constant(c.0, n),
        Expr::Neg(a, _) => {
            let u = eval_jet(a, x);
            Jet::unary(&u, -u.v, -1.0, 0.0, 0.0)
        }
        Expr::Abs(a) => {
            let u = eval_jet(a, x);
            let s = if u.v < 0.0 { -1.0 } else { 1.0 };
            Jet::unary(&u, u.v.abs(), s, 0.0, 0.0)
        }
        Expr::Exp(a) => {
            let u = eval_jet(a, x);
            let ev = u.v.exp();
            Jet::unary(&u, ev, ev, ev, ev)
        }
        Expr::Log(a) => {
            let u = eval_jet(a, x);
            Jet::unary(&u, u.v.ln(), 1.0 / u.v, -1.0 / (u.v * u.v), 2.0 / (u.v * u.v * u.v))
        }
        Expr::NormCdf(a) => {
            let u = eval_jet(a, x);
            let p = phi(u.v);
            let mut o = Jet::unary(&u, MathFuncs::norm_cdf(&u.v), p, -u.v * p, (u.v * u.v - 1.0) * p);
            o.va += PHI_IMPL_ACCURACY;
            o
        }
        Expr::InvNormCdf(a) => {
            let u = eval_jet(a, x);
            let q = safe_inv_norm_cdf(u.v);
            let p = phi(q);
            Jet::unary(&u, q, 1.0 / p, q / (p * p), (1.0 + 2.0 * q * q) / (p * p * p))
        }
        Expr::Pow(a, p, _) => {
            let u = eval_jet(a, x);
            let p = p.0;
            // k-th derivative of x^p: p(p-1)..(p-k+1) x^(p-k); where the falling factorial is
            // exactly zero the derivative vanishes identically (also at x = 0)
            let d = |k: i32| -> f64 {
                let c: f64 = (0..k).map(|j| p - j as f64).product();
                if c == 0.0 {
                    0.0
                } else {
                    c * u.v.powf(p - k as f64)
                }
            };
            let mut o = Jet::unary(&u, u.v.powf(p), d(1), d(2), d(3));
            // fourth and fifth derivative in the second-order allowances: at an exactly-zero base an
            // integer power 4 (5) has f' = f'' = f''' (= f'''') = 0 and the error of the base enters
            // the Hessian (gradient) through f'''' x error^2 / 2 alone
            let (a4, a5) = (d(4).abs(), d(5).abs());
            if (a4 > 0.0 && a4.is_finite()) || (a5 > 0.0 && a5.is_finite()) {
                let (a4, a5) = (if a4.is_finite() { a4 } else { 0.0 }, if a5.is_finite() { a5 } else { 0.0 });
                let n = o.g.len();
                for i in 0..n {
                    o.gl[i] += (a4 * u.vl.powi(3) / 6.0 + a5 * u.vl.powi(4) / 24.0) * u.gl[i];
                    for k in 0..n {
                        o.hl[i][k] += (a4 * u.vl * u.vl / 2.0 + a5 * u.vl.powi(3) / 6.0) * (u.gl[i] * u.gl[k] + u.hl[i][k]);
                    }
                }
            }
            o
        }
        Expr::Bin(op, _, l, r) => {
            let (a, b) = (eval_jet(l, x), eval_jet(r, x));
            match op {
                Op::Add => Jet::add(&a, &b, 1.0),
                Op::Sub => Jet::add(&a, &b, -1.0),
                Op::Mul => Jet::mul(&a, &b),
                Op::Div => {
                    let bv = b.v;
                    let inv = Jet::unary(&b, 1.0 / bv, -1.0 / (bv * bv), 2.0 / (bv * bv * bv), -6.0 / (bv * bv * bv * bv));
                    let mut o = Jet::mul(&a, &inv);
                    o.v = a.v / b.v;
                    o
                }
            }
        }
    }
}

/// Central finite differences of `eval_f64` (gradient) and of the reference gradient
/// (Hessian), used only to self-check the reference on a sample of cases.
pub fn fd_gradient(e: &Expr, x: &[f64]) -> Vec<f64> {
    let mut g = Vec::new();
    for i in 0..x.len() {
        let h = 1e-6 * x[i].abs().max(1.0);
        let (mut xp, mut xm) = (x.to_vec(), x.to_vec());
        xp[i] += h;
        xm[i] -= h;
        g.push((eval_f64(e, &xp) - eval_f64(e, &xm)) / (2.0 * h));
    }
    g
}

pub fn fd_hessian(e: &Expr, x: &[f64]) -> Vec<Vec<f64>> {
    let n = x.len();
    let mut hm = vec![vec![0.0; n]; n];
    for i in 0..n {
        let h = 1e-5 * x[i].abs().max(1.0);
        let (mut xp, mut xm) = (x.to_vec(), x.to_vec());
        xp[i] += h;
        xm[i] -= h;
        let (gp, gm) = (eval_jet(e, &xp).g, eval_jet(e, &xm).g);
        for k in 0..n {
            hm[i][k] = (gp[k] - gm[k]) / (2.0 * h);
        }
    }
    hm
}
