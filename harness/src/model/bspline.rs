//! Reference B-splines: the Cox-de Boor recursion carried out on polynomial coefficient
//! vectors per knot span (local variable s = x - t_j, terms with a zero-width denominator
//! dropped). Values and derivatives are read from the polynomial of the span that contains x
//! from the right; at the right end point from the last non-empty span (left limit).

/// piecewise polynomial: for each knot span j (0..t.len()-1) the coefficients in s = x - t[j]
#[derive(Clone, Debug)]
pub struct PP {
    pub spans: Vec<Vec<f64>>,
}

fn mul_linear(p: &[f64], c0: f64, c1: f64) -> Vec<f64> {
    // p(s) * (c0 + c1 s)
    let mut out = vec![0.0; p.len() + 1];
    for (j, a) in p.iter().enumerate() {
        out[j] += a * c0;
        out[j + 1] += a * c1;
    }
    out
}

fn add_into(a: &mut Vec<f64>, b: &[f64]) {
    if a.len() < b.len() {
        a.resize(b.len(), 0.0);
    }
    for (j, v) in b.iter().enumerate() {
        a[j] += v;
    }
}

/// All basis functions of order k on knots t, as piecewise polynomials: result[i] for
/// i in 0..t.len()-k.
pub fn basis(k: usize, t: &[f64]) -> Vec<PP> {
    let nspans = t.len() - 1;
    // order 1
    let mut cur: Vec<PP> = (0..t.len() - 1)
        .map(|i| PP { spans: (0..nspans).map(|j| if j == i && t[i] < t[i + 1] { vec![1.0] } else { vec![] }).collect() })
        .collect();
    for kk in 2..=k {
        let mut next = Vec::new();
        for i in 0..t.len() - kk {
            let mut pp = PP { spans: vec![vec![]; nspans] };
            let d1 = t[i + kk - 1] - t[i];
            let d2 = t[i + kk] - t[i + 1];
            for j in 0..nspans {
                if t[j] >= t[j + 1] {
                    continue;
                }
                let mut acc: Vec<f64> = vec![];
                if d1 != 0.0 && !cur[i].spans[j].is_empty() {
                    // (x - t_i)/d1 = (t_j - t_i)/d1 + s/d1
                    add_into(&mut acc, &mul_linear(&cur[i].spans[j], (t[j] - t[i]) / d1, 1.0 / d1));
                }
                if d2 != 0.0 && !cur[i + 1].spans[j].is_empty() {
                    // (t_{i+k} - x)/d2 = (t_{i+k} - t_j)/d2 - s/d2
                    add_into(&mut acc, &mul_linear(&cur[i + 1].spans[j], (t[i + kk] - t[j]) / d2, -1.0 / d2));
                }
                pp.spans[j] = acc;
            }
            next.push(pp);
        }
        cur = next;
    }
    cur
}

/// the span whose polynomial applies at x: t[j] <= x < t[j+1], or the last non-empty span at
/// the right end point. None outside the domain.
pub fn span_of(t: &[f64], x: f64) -> Option<usize> {
    let last = t[t.len() - 1];
    if x < t[0] || x > last {
        return None;
    }
    if x == last {
        return (0..t.len() - 1).rev().find(|j| t[*j] < t[*j + 1]);
    }
    (0..t.len() - 1).find(|j| t[*j] <= x && x < t[*j + 1])
}

/// m-th derivative of polynomial p at s, and the sum of absolute terms (error scale)
pub fn poly_deriv(p: &[f64], m: usize, s: f64) -> (f64, f64) {
    let mut v = 0.0;
    let mut mag = 0.0;
    for (j, a) in p.iter().enumerate() {
        if j < m {
            continue;
        }
        let mut f = 1.0;
        for q in 0..m {
            f *= (j - q) as f64;
        }
        let term = a * f * s.powi((j - m) as i32);
        v += term;
        mag += term.abs();
    }
    (v, mag)
}

impl PP {
    /// (value of the m-th derivative at x, error scale); zero outside the domain
    pub fn eval(&self, t: &[f64], x: f64, m: usize) -> (f64, f64) {
        match span_of(t, x) {
            None => (0.0, 0.0),
            Some(j) => poly_deriv(&self.spans[j], m, x - t[j]),
        }
    }
}
