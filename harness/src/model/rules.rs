//! The published holiday rules of the built-in calendars, re-implemented from the generator
//! scripts shipped next to the data tables (`rust/calendars/named/*_script.py`, which define
//! them with pandas `Holiday` objects) - without pandas, on the civil model of this crate.
//!
//! Semantics reproduced from pandas: a rule yields one reference date per year (1969..=2201),
//! an optional weekday offset (`DateOffset(weekday=MO(n))`: the n-th such weekday on/after the
//! reference date, or for negative n on/before it), an optional Easter offset, then an
//! observance function; the *observed* date is kept if it lies in
//! [max(rule.start, 1970-01-01), min(rule.end, 2200-12-31)].

use crate::model::civil::*;
use std::collections::BTreeSet;

#[derive(Clone, Copy, Debug)]
pub enum Obs {
    None,
    /// Sunday -> Monday
    SunToMon,
    /// Saturday -> Friday, Sunday -> Monday
    Nearest,
    /// Saturday, Sunday -> Monday
    NextMon,
    /// second of two adjacent holidays: Saturday -> Monday, Sunday -> Tuesday, Monday -> Tuesday
    NextMonOrTue,
}

#[derive(Clone, Copy, Debug)]
pub enum Base {
    Fixed(u32, u32),
    /// days relative to Easter Sunday
    Easter(i64),
    /// n-th (n > 0: on/after, n < 0: on/before) weekday `wd` counted from (month, day)
    Weekday { month: u32, day: u32, wd: u32, n: i32 },
    OneOff(i64, u32, u32),
}

#[derive(Clone, Copy, Debug)]
pub struct Rule {
    pub base: Base,
    pub obs: Obs,
    pub start: Option<(i64, u32, u32)>,
    pub end: Option<(i64, u32, u32)>,
}

const fn r(base: Base) -> Rule {
    Rule { base, obs: Obs::None, start: None, end: None }
}
const fn ro(base: Base, obs: Obs) -> Rule {
    Rule { base, obs, start: None, end: None }
}
impl Rule {
    const fn from(mut self, y: i64, m: u32, d: u32) -> Rule {
        self.start = Some((y, m, d));
        self
    }
    const fn until(mut self, y: i64, m: u32, d: u32) -> Rule {
        self.end = Some((y, m, d));
        self
    }
}

fn observe(z: i64, obs: Obs) -> i64 {
    let wd = weekday(z);
    match obs {
        Obs::None => z,
        Obs::SunToMon => if wd == 6 { z + 1 } else { z },
        Obs::Nearest => match wd { 5 => z - 1, 6 => z + 1, _ => z },
        Obs::NextMon => match wd { 5 => z + 2, 6 => z + 1, _ => z },
        Obs::NextMonOrTue => match wd { 5 | 6 => z + 2, 0 => z + 1, _ => z },
    }
}

impl Rule {
    /// All observed dates of the rule within 1970-01-01..=2200-12-31.
    pub fn dates(&self) -> Vec<i64> {
        let lo = self.start.map_or(DAY_MIN, |(y, m, d)| days_from_civil(y, m, d).max(DAY_MIN));
        let hi = self.end.map_or(day_max(), |(y, m, d)| days_from_civil(y, m, d).min(day_max()));
        let mut out = Vec::new();
        let mut push = |z: i64| {
            let o = observe(z, self.obs);
            if o >= lo && o <= hi {
                out.push(o);
            }
        };
        match self.base {
            Base::OneOff(y, m, d) => push(days_from_civil(y, m, d)),
            _ => {
                for y in 1969..=2201i64 {
                    match self.base {
                        Base::Fixed(m, d) => push(days_from_civil(y, m, d)),
                        Base::Easter(off) => push(easter_days(y) + off),
                        Base::Weekday { month, day, wd, n } => {
                            let refd = days_from_civil(y, month, day);
                            let z = if n > 0 {
                                let shift = (wd as i64 - weekday(refd) as i64).rem_euclid(7);
                                refd + shift + 7 * (n as i64 - 1)
                            } else {
                                let shift = (weekday(refd) as i64 - wd as i64).rem_euclid(7);
                                refd - shift - 7 * ((-n) as i64 - 1)
                            };
                            push(z)
                        }
                        Base::OneOff(..) => unreachable!(),
                    }
                }
            }
        }
        out
    }
}

const MON: u32 = 0;
const THU: u32 = 3;
const FRI: u32 = 4;
const GOOD_FRIDAY: Rule = r(Base::Easter(-2));
const EASTER_MONDAY: Rule = r(Base::Easter(1));

fn nyc_rules(with_good_friday: bool) -> Vec<Rule> {
    let mut v = vec![
        ro(Base::Fixed(1, 1), Obs::SunToMon),
        r(Base::Weekday { month: 1, day: 1, wd: MON, n: 3 }).from(1986, 1, 1),
        r(Base::Weekday { month: 2, day: 1, wd: MON, n: 3 }),
        r(Base::Weekday { month: 5, day: 31, wd: MON, n: -1 }),
        ro(Base::Fixed(6, 19), Obs::SunToMon).from(2022, 1, 1),
        ro(Base::Fixed(7, 4), Obs::Nearest),
        r(Base::Weekday { month: 9, day: 1, wd: MON, n: 1 }),
        r(Base::Weekday { month: 10, day: 1, wd: MON, n: 2 }),
        ro(Base::Fixed(11, 11), Obs::SunToMon),
        r(Base::Weekday { month: 11, day: 1, wd: THU, n: 4 }),
        ro(Base::Fixed(12, 25), Obs::Nearest),
        r(Base::OneOff(2018, 12, 5)),
    ];
    if with_good_friday {
        v.push(GOOD_FRIDAY);
    }
    v
}

/// Complete rule sets (the property demands exact agreement on every weekday).
pub fn full_rules(cal: &str) -> Option<Vec<Rule>> {
    Some(match cal {
        "tgt" => vec![
            r(Base::Fixed(1, 1)),
            GOOD_FRIDAY,
            EASTER_MONDAY,
            r(Base::Fixed(5, 1)),
            r(Base::Fixed(12, 25)),
            r(Base::Fixed(12, 26)),
        ],
        "nyc" => nyc_rules(true),
        "fed" => nyc_rules(false),
        "ldn" => vec![
            ro(Base::Fixed(1, 1), Obs::NextMon),
            GOOD_FRIDAY,
            EASTER_MONDAY,
            r(Base::Weekday { month: 5, day: 1, wd: MON, n: 1 }).until(2020, 1, 1),
            r(Base::OneOff(2020, 5, 8)),
            r(Base::Weekday { month: 5, day: 1, wd: MON, n: 1 }).from(2021, 1, 1),
            r(Base::Weekday { month: 5, day: 31, wd: MON, n: -1 }).until(2022, 5, 1),
            r(Base::Weekday { month: 5, day: 31, wd: MON, n: -1 }).from(2022, 7, 1),
            r(Base::OneOff(2022, 6, 2)),
            r(Base::OneOff(2022, 6, 3)),
            r(Base::OneOff(2022, 9, 19)),
            r(Base::OneOff(2023, 5, 8)),
            r(Base::Weekday { month: 8, day: 31, wd: MON, n: -1 }),
            ro(Base::Fixed(12, 25), Obs::NextMon),
            ro(Base::Fixed(12, 26), Obs::NextMonOrTue),
        ],
        "stk" => vec![
            r(Base::Fixed(1, 1)),
            r(Base::Fixed(1, 6)),
            GOOD_FRIDAY,
            EASTER_MONDAY,
            r(Base::Fixed(5, 1)),
            r(Base::Easter(39)),
            r(Base::Fixed(6, 6)),
            r(Base::Weekday { month: 6, day: 25, wd: FRI, n: -1 }),
            r(Base::Fixed(12, 24)),
            r(Base::Fixed(12, 25)),
            r(Base::Fixed(12, 26)),
            r(Base::Fixed(12, 31)),
        ],
        "osl" => vec![
            r(Base::Fixed(1, 1)),
            r(Base::Easter(-3)),
            GOOD_FRIDAY,
            EASTER_MONDAY,
            r(Base::Fixed(5, 1)),
            r(Base::Fixed(5, 17)),
            r(Base::Easter(39)),
            r(Base::Easter(50)),
            r(Base::Fixed(12, 24)),
            r(Base::Fixed(12, 25)),
            r(Base::Fixed(12, 26)),
        ],
        "zur" => vec![
            r(Base::Fixed(1, 1)),
            r(Base::Fixed(1, 2)),
            GOOD_FRIDAY,
            EASTER_MONDAY,
            r(Base::Fixed(5, 1)),
            r(Base::Easter(39)),
            r(Base::Easter(50)),
            r(Base::Fixed(8, 1)),
            r(Base::Fixed(12, 25)),
            r(Base::Fixed(12, 26)),
        ],
        _ => return None,
    })
}

/// Documented fixed-date and Easter-linked holidays of the remaining calendars; used one way
/// only: every *weekday* occurrence must be a holiday (observance shifts, floating Mondays,
/// equinoxes, lunar dates and ad-hoc closures are not modelled).
pub fn partial_rules(cal: &str) -> Option<Vec<Rule>> {
    Some(match cal {
        "tro" => vec![
            r(Base::Fixed(1, 1)),
            GOOD_FRIDAY,
            r(Base::Fixed(7, 1)),
            r(Base::Fixed(9, 30)).from(2021, 1, 1),
            r(Base::Fixed(11, 11)),
            r(Base::Fixed(12, 25)),
            r(Base::Fixed(12, 26)),
        ],
        "tyo" => vec![
            r(Base::Fixed(1, 1)),
            r(Base::Fixed(1, 2)),
            r(Base::Fixed(1, 3)),
            r(Base::Fixed(2, 11)),
            r(Base::Fixed(2, 23)).from(2020, 1, 1),
            r(Base::Fixed(4, 29)),
            r(Base::Fixed(5, 3)),
            r(Base::Fixed(5, 4)),
            r(Base::Fixed(5, 5)),
            r(Base::Fixed(8, 11)).from(2016, 1, 1).until(2019, 12, 31),
            r(Base::Fixed(8, 11)).from(2022, 1, 1),
            r(Base::Fixed(11, 3)),
            r(Base::Fixed(11, 23)),
            r(Base::Fixed(12, 23)).until(2019, 1, 1),
            r(Base::Fixed(12, 31)),
        ],
        "syd" => vec![
            r(Base::Fixed(1, 1)),
            r(Base::Fixed(1, 26)),
            GOOD_FRIDAY,
            EASTER_MONDAY,
            r(Base::Fixed(4, 25)),
            r(Base::Fixed(12, 25)),
            r(Base::Fixed(12, 26)),
        ],
        "wlg" => vec![
            r(Base::Fixed(1, 1)),
            r(Base::Fixed(1, 2)),
            r(Base::Fixed(2, 6)),
            GOOD_FRIDAY,
            EASTER_MONDAY,
            r(Base::Fixed(4, 25)),
            r(Base::Fixed(12, 25)),
            r(Base::Fixed(12, 26)),
        ],
        "mum" => vec![
            r(Base::Fixed(1, 26)),
            GOOD_FRIDAY,
            r(Base::Fixed(4, 14)),
            r(Base::Fixed(5, 1)),
            r(Base::Fixed(8, 15)),
            r(Base::Fixed(10, 2)),
            r(Base::Fixed(12, 25)),
        ],
        _ => return None,
    })
}

pub fn rule_days(rules: &[Rule]) -> BTreeSet<i64> {
    rules.iter().flat_map(|r| r.dates()).collect()
}

#[cfg(test)]
mod tests {
    use super::*;
    #[test]
    fn spot_checks() {
        let nyc = rule_days(&full_rules("nyc").unwrap());
        let d = |y, m, d| days_from_civil(y, m, d);
        assert!(nyc.contains(&d(2024, 3, 29))); // Good Friday
        assert!(nyc.contains(&d(2022, 6, 20))); // Juneteenth observed
        assert!(!nyc.contains(&d(2021, 6, 18)));
        assert!(nyc.contains(&d(2021, 7, 5))); // July 4 Sunday -> Monday
        assert!(nyc.contains(&d(2020, 7, 3))); // July 4 Saturday -> Friday
        assert!(!nyc.contains(&d(1985, 1, 21)));
        assert!(nyc.contains(&d(1986, 1, 20)));
        let fed = rule_days(&full_rules("fed").unwrap());
        assert!(!fed.contains(&d(2024, 3, 29)));
        let ldn = rule_days(&full_rules("ldn").unwrap());
        assert!(ldn.contains(&d(2020, 5, 8)) && !ldn.contains(&d(2020, 5, 4)));
        assert!(ldn.contains(&d(2022, 6, 2)) && !ldn.contains(&d(2022, 5, 30)));
        assert!(ldn.contains(&d(2021, 12, 27)) && ldn.contains(&d(2021, 12, 28)));
        assert!(ldn.contains(&d(2022, 12, 26)) && ldn.contains(&d(2022, 12, 27)));
        let stk = rule_days(&full_rules("stk").unwrap());
        assert!(stk.contains(&d(2024, 6, 21)));
    }
}
