//! Small shared helpers: exact float (de)serialisation for replay files, float strategies,
//! date conversion at the API boundary.

use crate::model::civil;
use chrono::{DateTime, NaiveDateTime};
use proptest::prelude::*;
use serde::{Deserialize, Deserializer, Serialize, Serializer};

/// An `f64` that serialises as its shortest round-trip decimal string, so that replay files
/// are exact whatever float parsing the JSON library in the build does.
#[derive(Clone, Copy, PartialEq, PartialOrd)]
pub struct Fl(pub f64);

impl std::fmt::Debug for Fl {
    fn fmt(&self, f: &mut std::fmt::Formatter<'_>) -> std::fmt::Result {
        write!(f, "{:?}", self.0)
    }
}

impl Serialize for Fl {
    fn serialize<S: Serializer>(&self, s: S) -> Result<S::Ok, S::Error> {
        s.serialize_str(&format!("{:?}", self.0))
    }
}

impl<'de> Deserialize<'de> for Fl {
    fn deserialize<D: Deserializer<'de>>(d: D) -> Result<Self, D::Error> {
        let s = String::deserialize(d)?;
        s.parse::<f64>().map(Fl).map_err(serde::de::Error::custom)
    }
}

pub fn fls(v: &[Fl]) -> Vec<f64> {
    v.iter().map(|x| x.0).collect()
}

/// Map a 16-bit index monotonically onto `0..len` (shrinks towards 0).
pub fn pick(i: u16, len: usize) -> usize {
    debug_assert!(len > 0);
    ((i as usize) * len) >> 16
}

/// Values of moderate size with either sign, away from zero: +-[0.2, 3].
pub fn moderate() -> impl Strategy<Value = Fl> {
    (any::<bool>(), 0.2f64..3.0).prop_map(|(neg, v)| Fl(if neg { -v } else { v }))
}

/// Positive values spread log-uniformly over [lo, hi].
pub fn log_uniform(lo: f64, hi: f64) -> impl Strategy<Value = Fl> {
    (lo.ln()..hi.ln()).prop_map(|l| Fl(l.exp()))
}

/// Coefficients for derivative arrays: mostly moderate, sometimes zero / small integers.
pub fn coeff() -> impl Strategy<Value = Fl> {
    prop_oneof![
        6 => (-4.0f64..4.0).prop_map(Fl),
        1 => Just(Fl(0.0)),
        1 => (-3i32..4).prop_map(|i| Fl(i as f64)),
    ]
}

/// Any finite double: raw bit patterns (all exponents), specials, and doubles that need 17
/// significant digits.
pub fn any_finite() -> impl Strategy<Value = Fl> {
    prop_oneof![
        5 => any::<u64>().prop_map(|b| {
            let f = f64::from_bits(b);
            if f.is_finite() { Fl(f) } else { Fl(f64::from_bits(b & 0x7FEF_FFFF_FFFF_FFFF | (b & 0x8000_0000_0000_0000))) }
        }),
        5 => (-1.0e6f64..1.0e6).prop_map(Fl),
        3 => (0.0f64..1.0).prop_map(Fl),
        1 => prop::sample::select(vec![
            0.0, -0.0, 1.0, -1.0, f64::MAX, f64::MIN, f64::MIN_POSITIVE, 5e-324, -5e-324,
            0.1 + 0.2, 1.0 / 3.0, 2.0f64.powi(53), 2.0f64.powi(53) + 2.0, 1e23, 1e-7, 123456789.12345679,
            9007199254740993.0, 0.30000000000000004, 1.7976931348623157e308, 2.2250738585072014e-308,
        ]).prop_map(Fl),
    ]
}

/// Day number (days since 1970-01-01) to the midnight `NaiveDateTime` the API takes.
pub fn day_to_ndt(z: i64) -> NaiveDateTime {
    DateTime::from_timestamp(z * 86400, 0)
        .expect("day number in chrono range")
        .naive_utc()
}

pub fn secs_to_ndt(s: i64) -> NaiveDateTime {
    DateTime::from_timestamp(s, 0)
        .expect("timestamp in chrono range")
        .naive_utc()
}

/// Back from the API: (day number, seconds into the day).
pub fn ndt_to_day(d: &NaiveDateTime) -> (i64, i64) {
    let s = d.and_utc().timestamp();
    (s.div_euclid(86400), s.rem_euclid(86400))
}

pub fn fmt_day(z: i64) -> String {
    let (y, m, d) = civil::civil_from_days(z);
    const WD: [&str; 7] = ["Mon", "Tue", "Wed", "Thu", "Fri", "Sat", "Sun"];
    format!("{:04}-{:02}-{:02}({})", y, m, d, WD[civil::weekday(z) as usize])
}

pub fn fmt_ndt(d: &NaiveDateTime) -> String {
    let (z, s) = ndt_to_day(d);
    if s == 0 {
        fmt_day(z)
    } else {
        format!("{}+{}s", fmt_day(z), s)
    }
}

/// Relative-with-floor closeness used by tolerance based oracles.
pub fn close(a: f64, b: f64, rel: f64, scale: f64) -> bool {
    if a == b {
        return true;
    }
    if !a.is_finite() || !b.is_finite() {
        return false;
    }
    (a - b).abs() <= rel * scale.abs().max(a.abs().max(b.abs()))
}

/// Distance in units in the last place between two finite doubles of the same sign
/// (u64::MAX if signs differ and they are not both zero).
pub fn ulps(a: f64, b: f64) -> u64 {
    if a == b {
        return 0;
    }
    if a.is_nan() || b.is_nan() || (a < 0.0) != (b < 0.0) {
        return u64::MAX;
    }
    let (x, y) = (a.abs().to_bits(), b.abs().to_bits());
    x.max(y) - x.min(y)
}
