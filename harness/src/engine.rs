//! The engine shared by all property checks: sharded proptest runs and exhaustive
//! enumerations, statistics, panic capture, known-findings matching, replay files and the
//! evidence writer.
//!
//! A run is a pure function of (the tree under /repo, VERIF_SEED, tier): every random choice is
//! made by a proptest strategy driven from a fixed seed, shards use seeds derived from
//! (seed, property id, stage name, shard index), and nothing reads the clock except to report
//! wall time.

use proptest::strategy::{BoxedStrategy, Strategy};
use proptest::strategy::ValueTree;
use proptest::test_runner::{Config, RngAlgorithm, RngSeed, TestCaseError, TestError, TestRng, TestRunner};
use serde::de::DeserializeOwned;
use serde::{Deserialize, Serialize};
use serde_json::{json, Value};
use std::cell::RefCell;
use std::collections::{BTreeMap, HashMap, HashSet};
use std::fmt::Debug;
use std::hash::{Hash, Hasher};
use std::panic::{catch_unwind, AssertUnwindSafe};
use std::path::{Path, PathBuf};
use std::sync::atomic::{AtomicBool, Ordering};
use std::sync::{Arc, Mutex};
use std::time::Instant;

// ---------------------------------------------------------------------------------------------
// basic types

#[derive(Clone, Copy, Debug, PartialEq, Eq)]
pub enum Tier {
    Quick,
    Thorough,
}

impl Tier {
    pub fn name(self) -> &'static str {
        match self {
            Tier::Quick => "quick",
            Tier::Thorough => "thorough",
        }
    }
    /// pick by tier
    pub fn pick<T>(self, quick: T, thorough: T) -> T {
        match self {
            Tier::Quick => quick,
            Tier::Thorough => thorough,
        }
    }
}

/// A failed clause of a property on one case.
#[derive(Clone, Debug, Serialize, Deserialize)]
pub struct Failure {
    /// Short, stable identification of what failed: `entry point | clause | panic site`.
    /// Known findings are matched on this string (prefix match).
    pub clause: String,
    /// Human readable observed/expected rendering.
    pub detail: String,
}

impl Failure {
    pub fn new(clause: impl Into<String>, detail: impl Into<String>) -> Self {
        Failure {
            clause: clause.into(),
            detail: detail.into(),
        }
    }
}

/// What checking one case produced.
#[derive(Clone, Debug, Default)]
pub struct Verdict {
    pub nontrivial: bool,
    pub labels: Vec<&'static str>,
    pub failure: Option<Failure>,
}

impl Verdict {
    pub fn new() -> Self {
        Verdict::default()
    }
    pub fn label(&mut self, l: &'static str) {
        self.labels.push(l);
    }
    pub fn label_if(&mut self, c: bool, l: &'static str) {
        if c {
            self.labels.push(l);
        }
    }
    pub fn nt(&mut self, c: bool) {
        self.nontrivial = self.nontrivial || c;
    }
    /// Record a failure (the first one wins).
    pub fn fail(&mut self, clause: impl Into<String>, detail: impl Into<String>) {
        if self.failure.is_none() {
            self.failure = Some(Failure::new(clause, detail));
        }
    }
    pub fn failed(&self) -> bool {
        self.failure.is_some()
    }
}

/// Intern a dynamically built label.
pub fn intern(s: String) -> &'static str {
    static POOL: Mutex<Option<HashSet<&'static str>>> = Mutex::new(None);
    let mut g = POOL.lock().unwrap();
    let set = g.get_or_insert_with(HashSet::new);
    if let Some(x) = set.get(s.as_str()) {
        return x;
    }
    let leaked: &'static str = Box::leak(s.into_boxed_str());
    set.insert(leaked);
    leaked
}

pub type StrategyMaker<C> = Arc<dyn Fn() -> BoxedStrategy<C> + Send + Sync>;
pub type EnumMaker<C> =
    Arc<dyn Fn(usize, usize) -> Box<dyn Iterator<Item = C>> + Send + Sync>;

/// One stage of a property's plan.
pub enum Stage<C> {
    /// `cases` random cases (split over the shards) from a proptest strategy, with shrinking.
    Random {
        name: &'static str,
        cases: u64,
        strategy: StrategyMaker<C>,
    },
    /// A deterministic enumeration; `make(shard, nshards)` yields this shard's part.
    /// `exhaustive` = the stage enumerates a finite space completely.
    /// `distinct` = the enumeration never repeats a case (skips the hash set).
    Enumerate {
        name: &'static str,
        exhaustive: bool,
        distinct: bool,
        make: EnumMaker<C>,
    },
}

impl<C> Stage<C> {
    pub fn random<S>(name: &'static str, cases: u64, f: impl Fn() -> S + Send + Sync + 'static) -> Self
    where
        S: Strategy<Value = C> + 'static,
        C: Debug,
    {
        Stage::Random {
            name,
            cases,
            strategy: Arc::new(move || f().boxed()),
        }
    }
    pub fn enumerate(
        name: &'static str,
        exhaustive: bool,
        distinct: bool,
        f: impl Fn(usize, usize) -> Box<dyn Iterator<Item = C>> + Send + Sync + 'static,
    ) -> Self {
        Stage::Enumerate {
            name,
            exhaustive,
            distinct,
            make: Arc::new(f),
        }
    }
    fn name(&self) -> &'static str {
        match self {
            Stage::Random { name, .. } => name,
            Stage::Enumerate { name, .. } => name,
        }
    }
}

/// A coverage floor: the label must have been hit at least `min` times, otherwise the run is
/// inconclusive (exit 2) - a generator problem, never a violation.
pub struct Floor {
    pub label: &'static str,
    pub min: u64,
}

pub trait Property: Sync {
    type Case: Serialize + DeserializeOwned + Debug + Clone + Send + 'static;
    fn id(&self) -> &'static str;
    /// Decide one case. Library panics must be caught inside (see [`catch`]) when the property
    /// has something to say about them; an uncaught panic is reported as a failure with clause
    /// `uncaught-panic`.
    fn check(&self, case: &Self::Case) -> Verdict;
    fn plan(&self, tier: Tier) -> Vec<Stage<Self::Case>>;
    /// How cases are generated and what makes one non-trivial / distinct (goes to the evidence).
    fn rule(&self) -> String;
    fn floors(&self, _tier: Tier) -> Vec<Floor> {
        vec![]
    }
    fn assumptions(&self) -> Vec<String> {
        vec![]
    }
    /// Extra keys for the evidence `coverage` object.
    fn extra_coverage(&self) -> Value {
        json!({})
    }
}

// ---------------------------------------------------------------------------------------------
// panic capture

#[derive(Clone, Debug)]
pub struct PanicNote {
    pub file: String,
    pub line: u32,
    pub message: String,
}

impl PanicNote {
    /// `file: message-prefix` with line numbers left out, so that signatures survive edits.
    pub fn site(&self) -> String {
        let f = self.file.rsplit('/').next().unwrap_or(&self.file);
        let m: String = self.message.chars().take(60).collect();
        format!("{}: {}", f, m)
    }
}

thread_local! {
    static LAST_PANIC: RefCell<Option<PanicNote>> = const { RefCell::new(None) };
}

pub fn install_panic_hook() {
    let verbose = std::env::var("RLVERIF_PANIC_VERBOSE").is_ok();
    std::panic::set_hook(Box::new(move |info| {
        let (file, line) = info
            .location()
            .map(|l| (l.file().to_string(), l.line()))
            .unwrap_or_else(|| ("?".to_string(), 0));
        let message = if let Some(s) = info.payload().downcast_ref::<&str>() {
            s.to_string()
        } else if let Some(s) = info.payload().downcast_ref::<String>() {
            s.clone()
        } else {
            "<non-string panic payload>".to_string()
        };
        if verbose {
            eprintln!("[panic] {}:{}: {}", file, line, message);
        }
        LAST_PANIC.with(|p| {
            *p.borrow_mut() = Some(PanicNote {
                file,
                line,
                message,
            })
        });
    }));
}

/// Run library code, turning a panic into a value.
pub fn catch<T>(f: impl FnOnce() -> T) -> Result<T, PanicNote> {
    LAST_PANIC.with(|p| *p.borrow_mut() = None);
    match catch_unwind(AssertUnwindSafe(f)) {
        Ok(v) => Ok(v),
        Err(_) => Err(LAST_PANIC
            .with(|p| p.borrow_mut().take())
            .unwrap_or(PanicNote {
                file: "?".into(),
                line: 0,
                message: "<panic without note>".into(),
            })),
    }
}

// ---------------------------------------------------------------------------------------------
// known findings

#[derive(Clone, Debug, Serialize, Deserialize)]
pub struct KnownFinding {
    pub property: String,
    /// "known" suppresses (prints KNOWN-FINDING); "fixed" suppresses nothing.
    pub status: String,
    /// Prefix of `Failure::clause`.
    pub signature: String,
    pub description: String,
    #[serde(default)]
    pub commit: Option<String>,
    /// A case (serde form of the property's Case) that exhibits the finding.
    #[serde(default)]
    pub example: Option<Value>,
}

pub fn verif_root() -> PathBuf {
    if let Ok(p) = std::env::var("RLVERIF_ROOT") {
        return PathBuf::from(p);
    }
    // the binary lives in <root>/harness/target/release/
    let exe = std::env::current_exe().unwrap_or_else(|_| PathBuf::from("."));
    for anc in exe.ancestors() {
        if anc.join("properties.jsonl").exists() {
            return anc.to_path_buf();
        }
    }
    PathBuf::from("/verif")
}

pub fn load_known(id: &str) -> Vec<KnownFinding> {
    let p = verif_root().join("known_findings.json");
    let Ok(txt) = std::fs::read_to_string(&p) else {
        return vec![];
    };
    let all: Vec<KnownFinding> = match serde_json::from_str(&txt) {
        Ok(v) => v,
        Err(e) => {
            eprintln!("cannot parse {}: {}", p.display(), e);
            std::process::exit(2);
        }
    };
    all.into_iter().filter(|k| k.property == id).collect()
}

fn known_match<'a>(known: &'a [KnownFinding], f: &Failure) -> Option<&'a KnownFinding> {
    known
        .iter()
        .find(|k| k.status == "known" && f.clause.starts_with(&k.signature))
}

// ---------------------------------------------------------------------------------------------
// statistics

#[derive(Default)]
struct Stats {
    evaluations: u64,
    nontrivial: u64,
    distinct_hashes: HashSet<u64>,
    distinct_counted: u64, // from stages that are distinct by construction
    labels: HashMap<&'static str, u64>,
    samples: Vec<Value>,
    known_hits: HashMap<String, u64>,
}

impl Stats {
    fn merge(&mut self, o: Stats) {
        self.evaluations += o.evaluations;
        self.nontrivial += o.nontrivial;
        self.distinct_hashes.extend(o.distinct_hashes);
        self.distinct_counted += o.distinct_counted;
        for (k, v) in o.labels {
            *self.labels.entry(k).or_insert(0) += v;
        }
        for s in o.samples {
            if self.samples.len() < 12 {
                self.samples.push(s);
            }
        }
        for (k, v) in o.known_hits {
            *self.known_hits.entry(k).or_insert(0) += v;
        }
    }
}

fn hash_json<C: Serialize>(c: &C) -> u64 {
    let s = serde_json::to_string(c).unwrap_or_default();
    let mut h = std::collections::hash_map::DefaultHasher::new();
    s.hash(&mut h);
    h.finish()
}

fn mix(seed: u64, id: &str, stage: &str, shard: usize) -> u64 {
    // splitmix-style mixing of a stable string hash; DefaultHasher::new() uses fixed keys.
    let mut h = std::collections::hash_map::DefaultHasher::new();
    seed.hash(&mut h);
    id.hash(&mut h);
    stage.hash(&mut h);
    (shard as u64).hash(&mut h);
    let mut z = h.finish().wrapping_add(0x9E3779B97F4A7C15);
    z = (z ^ (z >> 30)).wrapping_mul(0xBF58476D1CE4E5B9);
    z = (z ^ (z >> 27)).wrapping_mul(0x94D049BB133111EB);
    z ^ (z >> 31)
}

struct Found<C> {
    case: C,
    failure: Failure,
    stage: &'static str,
    shrunk: bool,
}

fn checked<P: Property>(p: &P, case: &P::Case) -> Verdict {
    match catch(|| p.check(case)) {
        Ok(v) => v,
        Err(note) => {
            let mut v = Verdict::new();
            v.fail(
                format!("uncaught-panic | {}", note.site()),
                format!("panic at {}:{}: {}", note.file, note.line, note.message),
            );
            v
        }
    }
}

fn record<C: Serialize>(
    st: &mut Stats,
    case: &C,
    v: &Verdict,
    stage: &'static str,
    distinct_by_construction: bool,
    want_samples: usize,
) {
    st.evaluations += 1;
    *st.labels.entry(intern(format!("stage:{}", stage))).or_insert(0) += 1;
    for l in &v.labels {
        *st.labels.entry(l).or_insert(0) += 1;
    }
    if v.nontrivial {
        st.nontrivial += 1;
        if distinct_by_construction {
            st.distinct_counted += 1;
        } else {
            st.distinct_hashes.insert(hash_json(case));
        }
        if st.samples.len() < want_samples {
            st.samples.push(json!({"stage": stage, "case": serde_json::to_value(case).unwrap_or(Value::Null)}));
        }
    }
}

// ---------------------------------------------------------------------------------------------
// the runner

pub struct Opts {
    pub tier: Tier,
    pub seed: u64,
    pub threads: usize,
    pub replay: Option<PathBuf>,
}

#[derive(Serialize, Deserialize)]
struct ReplayFile {
    property: String,
    seed: u64,
    tier: String,
    stage: String,
    clause: String,
    detail: String,
    case: Value,
}

fn write_replay<C: Serialize>(id: &str, opts: &Opts, f: &Found<C>) -> PathBuf {
    let dir = verif_root().join("replays").join(id);
    let _ = std::fs::create_dir_all(&dir);
    let h = hash_json(&f.case);
    let path = dir.join(format!("v-{:016x}.json", h));
    let rf = ReplayFile {
        property: id.to_string(),
        seed: opts.seed,
        tier: opts.tier.name().to_string(),
        stage: f.stage.to_string(),
        clause: f.failure.clause.clone(),
        detail: f.failure.detail.clone(),
        case: serde_json::to_value(&f.case).unwrap_or(Value::Null),
    };
    let _ = std::fs::write(&path, serde_json::to_string_pretty(&rf).unwrap());
    path
}

fn read_case<C: DeserializeOwned>(path: &Path) -> Result<C, String> {
    let txt = std::fs::read_to_string(path).map_err(|e| format!("{}: {}", path.display(), e))?;
    let v: Value = serde_json::from_str(&txt).map_err(|e| format!("{}: {}", path.display(), e))?;
    let case = v.get("case").cloned().unwrap_or(v);
    serde_json::from_value(case).map_err(|e| format!("{}: {}", path.display(), e))
}

/// Run one replay file through the plain oracle (no proptest). Exit code as for a check.
pub fn replay_one<P: Property>(p: &P, path: &Path) -> i32 {
    let known = load_known(p.id());
    let case: P::Case = match read_case(path) {
        Ok(c) => c,
        Err(e) => {
            eprintln!("cannot read replay: {}", e);
            return 2;
        }
    };
    let v = checked(p, &case);
    match v.failure {
        None => {
            println!("replay {}: property {} holds on this case", path.display(), p.id());
            0
        }
        Some(f) => {
            if let Some(k) = known_match(&known, &f) {
                println!("KNOWN-FINDING: property={} {}", p.id(), k.description);
                0
            } else {
                println!("VIOLATION property={} replay={}", p.id(), path.display());
                println!("  clause: {}", f.clause);
                println!("  detail: {}", f.detail);
                println!("  case: {}", serde_json::to_string(&case).unwrap_or_default());
                1
            }
        }
    }
}

pub fn run_property<P: Property>(p: &P, opts: &Opts) -> i32 {
    if let Some(path) = &opts.replay {
        return replay_one(p, path);
    }
    let t0 = Instant::now();
    let id = p.id();
    let known = load_known(id);
    let mut total = Stats::default();
    let mut found: Vec<Found<P::Case>> = Vec::new();
    let mut known_lines: Vec<String> = Vec::new();
    let mut stage_notes: Vec<Value> = Vec::new();
    let mut inconclusive: Vec<String> = Vec::new();

    // --- regression tier: known-finding examples and committed replay files
    for k in known.iter().filter(|k| k.status == "known") {
        if let Some(ex) = &k.example {
            match serde_json::from_value::<P::Case>(ex.clone()) {
                Ok(case) => {
                    let v = checked(p, &case);
                    record(&mut total, &case, &v, "known-example", false, 0);
                    match &v.failure {
                        Some(f) if f.clause.starts_with(&k.signature) => {
                            known_lines.push(format!(
                                "KNOWN-FINDING: property={} {}",
                                id, k.description
                            ));
                        }
                        Some(f) => {
                            // the example now fails differently: that is a new violation
                            found.push(Found {
                                case,
                                failure: f.clone(),
                                stage: "known-example",
                                shrunk: false,
                            });
                        }
                        None => {} // repaired: no line
                    }
                }
                Err(e) => inconclusive.push(format!("known finding example does not parse: {}", e)),
            }
        }
    }
    let rdir = verif_root().join("replays").join(id);
    let mut rfiles: Vec<PathBuf> = std::fs::read_dir(&rdir)
        .map(|d| {
            d.filter_map(|e| e.ok())
                .map(|e| e.path())
                .filter(|p| p.extension().map_or(false, |x| x == "json"))
                .collect()
        })
        .unwrap_or_default();
    rfiles.sort();
    let mut replay_violations: Vec<(PathBuf, Failure)> = Vec::new();
    for rf in &rfiles {
        match read_case::<P::Case>(rf) {
            Ok(case) => {
                let v = checked(p, &case);
                record(&mut total, &case, &v, "replay", false, 2);
                if let Some(f) = v.failure {
                    if let Some(k) = known_match(&known, &f) {
                        *total.known_hits.entry(k.signature.clone()).or_insert(0) += 1;
                    } else {
                        replay_violations.push((rf.clone(), f));
                    }
                }
            }
            Err(e) => eprintln!("note: skipping unreadable replay file: {}", e),
        }
    }

    // --- planned stages
    let plan = p.plan(opts.tier);
    let mut exhaustive_all = !plan.is_empty();
    for stage in &plan {
        let sname = stage.name();
        let st0 = Instant::now();
        let nshards = opts.threads.max(1);
        let stop = AtomicBool::new(false);
        let results: Vec<(Stats, Vec<Found<P::Case>>)> = std::thread::scope(|scope| {
            let mut hs = Vec::new();
            for k in 0..nshards {
                let known = &known;
                let stop = &stop;
                hs.push(scope.spawn(move || run_shard(p, stage, k, nshards, opts, known, stop)));
            }
            hs.into_iter()
                .map(|h| h.join().expect("shard thread panicked outside catch"))
                .collect()
        });
        let mut stage_evals = 0;
        for (st, fs) in results {
            stage_evals += st.evaluations;
            total.merge(st);
            found.extend(fs);
        }
        let exhaustive = matches!(stage, Stage::Enumerate { exhaustive: true, .. });
        if !exhaustive {
            exhaustive_all = false;
        }
        stage_notes.push(json!({
            "stage": sname,
            "kind": match stage { Stage::Random{..} => "random (proptest, shrinking)", Stage::Enumerate{..} => "enumeration" },
            "exhaustive": exhaustive,
            "evaluations": stage_evals,
            "wall_s": st0.elapsed().as_secs_f64(),
        }));
    }

    // --- floors
    for fl in p.floors(opts.tier) {
        let got = total.labels.get(fl.label).copied().unwrap_or(0);
        if got < fl.min {
            inconclusive.push(format!(
                "coverage floor unmet: label '{}' hit {} times, floor {}",
                fl.label, got, fl.min
            ));
        }
    }

    // --- report
    // de-duplicate failures by clause
    let mut by_clause: BTreeMap<String, Found<P::Case>> = BTreeMap::new();
    #[allow(clippy::map_entry)]
    for f in found {
        by_clause.entry(f.failure.clause.clone()).or_insert(f);
    }
    let mut violations = 0usize;
    // a failed oracle self-check or a generator fault says nothing about the property
    let infra: Vec<String> = by_clause
        .keys()
        .filter(|k| k.starts_with("oracle-self-check") || k.starts_with("generator |") || k.starts_with("infrastructure |") || k.starts_with("flaky-oracle"))
        .cloned()
        .collect();
    for k in infra {
        if let Some(f) = by_clause.remove(&k) {
            inconclusive.push(format!("{}: {} (case: {})", f.failure.clause, f.failure.detail, serde_json::to_string(&f.case).unwrap_or_default()));
        }
    }
    for l in &known_lines {
        println!("{}", l);
    }
    for (sig, n) in &total.known_hits {
        println!(
            "note: {} generated case(s) matched known finding '{}' and were excluded from the search",
            n, sig
        );
    }
    for (path, f) in &replay_violations {
        violations += 1;
        println!("VIOLATION property={} replay={}", id, path.display());
        println!("  clause: {}", f.clause);
        println!("  detail: {}", f.detail);
    }
    for (_, f) in by_clause.iter().take(5) {
        violations += 1;
        let path = write_replay(id, opts, f);
        println!("VIOLATION property={} replay={}", id, path.display());
        println!("  stage: {}{}", f.stage, if f.shrunk { " (shrunk)" } else { "" });
        println!("  clause: {}", f.failure.clause);
        println!("  detail: {}", f.failure.detail);
        println!(
            "  case: {}",
            serde_json::to_string(&f.case).unwrap_or_default()
        );
    }
    let distinct_nt = total.distinct_hashes.len() as u64 + total.distinct_counted;
    let mut labels: BTreeMap<&str, u64> = BTreeMap::new();
    for (k, v) in &total.labels {
        labels.insert(k, *v);
    }
    let mut coverage = json!({
        "evaluations": total.evaluations,
        "distinct_nontrivial": distinct_nt,
        "nontrivial_evaluations": total.nontrivial,
        "rule": p.rule(),
        "samples": total.samples,
        "exhaustive": exhaustive_all,
        "labels": labels,
        "stages": stage_notes,
        "replay_files_rerun": rfiles.len(),
        "known_findings_listed": known.iter().filter(|k| k.status=="known").count(),
        "known_finding_lines_printed": known_lines.len(),
        "cases_excluded_as_known": total.known_hits.values().sum::<u64>(),
        "threads": opts.threads,
    });
    if !inconclusive.is_empty() {
        coverage["explanation"] = json!(format!("INCONCLUSIVE: {}", inconclusive.join("; ")));
    }
    if let (Value::Object(c), Value::Object(extra)) = (&mut coverage, p.extra_coverage()) {
        for (k, v) in extra {
            c.insert(k, v);
        }
    }
    let evidence = json!({
        "property_id": id,
        "tier": opts.tier.name(),
        "seed": opts.seed,
        "level": "exploration",
        "coverage": coverage,
        "assumptions": p.assumptions(),
        "wall_s": t0.elapsed().as_secs_f64(),
        "violations": violations,
    });
    let edir = verif_root().join("evidence");
    let _ = std::fs::create_dir_all(&edir);
    let epath = edir.join(format!("{}.json", id));
    if let Err(e) = std::fs::write(&epath, serde_json::to_string_pretty(&evidence).unwrap()) {
        eprintln!("cannot write evidence {}: {}", epath.display(), e);
        return 2;
    }
    println!(
        "{} tier={} seed={} evaluations={} distinct_nontrivial={} violations={} known_lines={} wall={:.1}s",
        id,
        opts.tier.name(),
        opts.seed,
        total.evaluations,
        distinct_nt,
        violations,
        known_lines.len(),
        t0.elapsed().as_secs_f64()
    );
    if violations > 0 {
        return 1;
    }
    if !inconclusive.is_empty() {
        for i in &inconclusive {
            println!("INCONCLUSIVE: {}", i);
        }
        return 2;
    }
    0
}

fn run_shard<P: Property>(
    p: &P,
    stage: &Stage<P::Case>,
    k: usize,
    nshards: usize,
    opts: &Opts,
    known: &[KnownFinding],
    stop: &AtomicBool,
) -> (Stats, Vec<Found<P::Case>>) {
    let mut st = Stats::default();
    let mut found = Vec::new();
    let want_samples = if k < 3 { 2 } else { 0 };
    match stage {
        Stage::Random {
            name,
            cases,
            strategy,
        } => {
            let my_cases = cases / nshards as u64 + u64::from((k as u64) < cases % nshards as u64);
            if my_cases == 0 {
                return (st, found);
            }
            let cfg = Config {
                cases: my_cases.min(u32::MAX as u64) as u32,
                failure_persistence: None,
                rng_seed: RngSeed::Fixed(mix(opts.seed, p.id(), name, k)),
                max_shrink_iters: 4000,
                // rejections are counted over the whole shard (hundreds of thousands of cases): a
                // filter that rejects one draw in a thousand must not abort a thorough stage
                max_local_rejects: u32::MAX,
                max_global_rejects: u32::MAX,
                ..Config::default()
            };
            let mut runner = TestRunner::new(cfg);
            let strat = strategy();
            let failed = std::cell::Cell::new(false);
            let stref = RefCell::new(&mut st);
            let res = runner.run(&strat, |case| {
                let v = checked(p, &case);
                if !failed.get() {
                    record(&mut stref.borrow_mut(), &case, &v, name, false, want_samples);
                }
                match v.failure {
                    None => Ok(()),
                    Some(f) => {
                        if let Some(kf) = known_match(known, &f) {
                            if !failed.get() {
                                *stref
                                    .borrow_mut()
                                    .known_hits
                                    .entry(kf.signature.clone())
                                    .or_insert(0) += 1;
                            }
                            Ok(())
                        } else {
                            failed.set(true);
                            Err(TestCaseError::fail(f.clause))
                        }
                    }
                }
            });
            drop(stref);
            match res {
                Ok(()) => {}
                Err(TestError::Fail(_, case)) => {
                    let v = checked(p, &case);
                    let failure = v.failure.unwrap_or_else(|| {
                        Failure::new(
                            "flaky-oracle",
                            "the shrunk case passed when re-checked: the oracle is not deterministic",
                        )
                    });
                    found.push(Found {
                        case,
                        failure,
                        stage: name,
                        shrunk: true,
                    });
                }
                Err(TestError::Abort(why)) => {
                    found.push_abort(name, why.to_string());
                }
            }
        }
        Stage::Enumerate {
            name,
            distinct,
            make,
            ..
        } => {
            for case in make(k, nshards) {
                if stop.load(Ordering::Relaxed) {
                    break;
                }
                let v = checked(p, &case);
                record(&mut st, &case, &v, name, *distinct, want_samples);
                if let Some(f) = v.failure {
                    if let Some(kf) = known_match(known, &f) {
                        *st.known_hits.entry(kf.signature.clone()).or_insert(0) += 1;
                    } else {
                        found.push(Found {
                            case,
                            failure: f,
                            stage: name,
                            shrunk: false,
                        });
                        if found.len() >= 3 {
                            stop.store(true, Ordering::Relaxed);
                            break;
                        }
                    }
                }
            }
        }
    }
    (st, found)
}

trait PushAbort {
    fn push_abort(&mut self, stage: &'static str, why: String);
}
impl<C> PushAbort for Vec<Found<C>> {
    fn push_abort(&mut self, stage: &'static str, why: String) {
        // A proptest abort (too many rejects) is a generator problem: surface loudly on stderr.
        eprintln!("INCONCLUSIVE: proptest aborted stage {}: {}", stage, why);
        std::process::exit(2);
    }
}

/// Split `0..n` into the `k`-th of `m` contiguous chunks.
pub fn chunk(n: usize, k: usize, m: usize) -> std::ops::Range<usize> {
    let base = n / m;
    let rem = n % m;
    let start = k * base + k.min(rem);
    let len = base + usize::from(k < rem);
    start..(start + len)
}

// ---------------------------------------------------------------------------------------------
// coverage-guided fuzzing support: the fuzzer's bytes ARE the random stream of the property's
// own proptest strategy (proptest's pass-through RNG), so every generator, reference model and
// oracle of the property is reused unchanged and libFuzzer's mutations steer the generators.

/// Build a case of the property's first random stage from raw bytes.
pub fn case_from_bytes<P: Property>(p: &P, data: &[u8]) -> Option<P::Case> {
    use std::any::Any;
    thread_local! {
        // the property's strategy is built once per thread and reused for every input
        static STRATS: RefCell<HashMap<&'static str, Box<dyn Any>>> = RefCell::new(HashMap::new());
    }
    let strat: BoxedStrategy<P::Case> = STRATS.with(|m| {
        let mut m = m.borrow_mut();
        if !m.contains_key(p.id()) {
            let s = p.plan(Tier::Quick).into_iter().find_map(|s| match s {
                Stage::Random { strategy, .. } => Some(strategy()),
                _ => None,
            })?;
            m.insert(p.id(), Box::new(s));
        }
        m.get(p.id()).and_then(|b| b.downcast_ref::<BoxedStrategy<P::Case>>()).cloned()
    })?;
    let cfg = Config { failure_persistence: None, ..Config::default() };
    // (the vendored proptest continues an exhausted pass-through stream pseudo-randomly)
    let mut runner = TestRunner::new_with_rng(cfg, TestRng::from_seed(RngAlgorithm::PassThrough, data));
    strat.new_tree(&mut runner).ok().map(|t| t.current())
}

/// What one fuzz iteration found.
pub enum FuzzOutcome {
    Pass { nontrivial: bool },
    Known,
    /// a violation; the replay file (plain Case JSON, usable with `--replay`) has been written
    Violation { replay: PathBuf, failure: Failure },
    Unbuildable,
}

pub fn fuzz_one<P: Property>(p: &P, known: &[KnownFinding], data: &[u8]) -> FuzzOutcome {
    let case = match catch(|| case_from_bytes(p, data)) {
        Ok(Some(c)) => c,
        _ => return FuzzOutcome::Unbuildable,
    };
    fuzz_case(p, known, case)
}

pub fn fuzz_case<P: Property>(p: &P, known: &[KnownFinding], case: P::Case) -> FuzzOutcome {
    let v = checked(p, &case);
    match v.failure {
        None => FuzzOutcome::Pass { nontrivial: v.nontrivial },
        Some(f) => {
            if known_match(known, &f).is_some() {
                return FuzzOutcome::Known;
            }
            if f.clause.starts_with("oracle-self-check") || f.clause.starts_with("generator |") || f.clause.starts_with("infrastructure |") {
                return FuzzOutcome::Unbuildable;
            }
            let opts = Opts { tier: Tier::Thorough, seed: 0, threads: 1, replay: None };
            let found = Found { case, failure: f.clone(), stage: "libfuzzer", shrunk: false };
            let mut path = write_replay(p.id(), &opts, &found);
            // distinguish fuzz finds from proptest finds by name
            let renamed = path.with_file_name(path.file_name().unwrap().to_string_lossy().replacen("v-", "fz-", 1));
            if std::fs::rename(&path, &renamed).is_ok() {
                path = renamed;
            }
            FuzzOutcome::Violation { replay: path, failure: f }
        }
    }
}
