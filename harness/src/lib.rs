//! rlverif - property-based verification harness for rateslib (see /verif/DESIGN.md).
pub mod engine;
pub mod gen;
pub mod model;
pub mod props;
pub mod util;
