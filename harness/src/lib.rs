//! rlverif - property-based verification harness for rateslib (see /verif/DESIGN.md).
#![allow(unused_imports, dead_code, unused_variables, unused_mut)]
pub mod engine;
pub mod gen;
pub mod model;
pub mod props;
pub mod util;
