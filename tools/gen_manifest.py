#!/usr/bin/env python3
"""Regenerates /verif/MANIFEST.json from the table below (one entry per built check)."""
import json, os, subprocess
ROOT = os.path.dirname(os.path.dirname(os.path.abspath(__file__)))

CHECKS = {
 "C04": dict(
   text="Generated-input search with an independent oracle: ~160k random (calendar, date, modifier, flag) cases per quick run (3M thorough) over plain, combined and named calendars with arbitrary week masks and holiday runs aimed at month/year ends and settlement-only closures, plus a sweep of every date x modifier x flag over the 14 built-in calendars and 6 typical combinations (30-year window quick, all of 1970-2200 thorough, where it is exhaustive). Each result is compared with a day-by-day reference walk; fixed-point and idempotence laws are asserted. Exploration cannot show absence for arbitrary user calendars, but the built-in sweep is complete.",
   note="Trusts the calendar object's own is_bus_day/is_settlement (decided by C06/C07); midnight timestamps only; holiday runs <= 12 days.",
   technique="property-based testing (proptest, shrinking) + exhaustive enumeration against a reference walk",
   design="5/C04"),
}

def main():
    props = [json.loads(l) for l in open(os.path.join(ROOT, "properties.jsonl"))]
    hooks_commits = subprocess.run(["git","-C","/repo","log","--format=%H %s"],capture_output=True,text=True).stdout.splitlines()
    hook_shas = [l.split()[0] for l in hooks_commits if "verif hooks" in l or "verif_hooks" in l]
    checks = []
    na = []
    for p in props:
        pid = p["id"]
        if pid in CHECKS:
            c = CHECKS[pid]
            checks.append({
                "property_id": pid,
                "quick_cmd": f"./check {pid} --tier quick",
                "thorough_cmd": f"./check {pid} --tier thorough",
                "evidence_file": f"/verif/evidence/{pid}.json",
                "replay_cmd_template": f"./check {pid} --replay {{path}}",
                "engine": "rlverif",
                "level_claimed": {"category": "exploration", "text": c["text"], "design_ref": c["design"]},
                "level_note": c["note"],
                "technique": c["technique"],
            })
        else:
            na.append({"property_id": pid, "reason": "check not built yet at this commit (property-based check designed in DESIGN.md section 5; it will be claimed once its harness module exists and is silent on the unchanged tree)"})
    m = {
        "version": 1,
        "setup_cmd": "./setup.sh",
        "hooks": {
            "guard": "cargo feature verif_hooks (rateslib/Cargo.toml [features]); off by default",
            "enable": "the harness crate /verif/harness depends on rateslib by path with features = [\"verif_hooks\"]; the fuzz crate does the same",
            "baseline_off_cmd": "cd /repo && cargo test --workspace --no-fail-fast --offline",
            "source_commits": hook_shas,
            "add_only": True,
        },
        "engines": [{
            "name": "rlverif",
            "path": "/verif/harness",
            "serves_properties": sorted(CHECKS.keys()),
            "kind_free_text": "Rust binary: proptest strategies driven from a fixed seed over 16 shards, exhaustive enumerators for finite sub-domains, independent reference models, shrinking to JSON replay files, known-findings matcher, evidence writer",
        }],
        "checks": checks,
        "not_applicable": na,
        "notes": "Entry point ./check <ID> --tier quick|thorough; exit 0/1/2 (2 = inconclusive or infrastructure, never a verdict). VERIF_SEED selects the seed (default 1). known_findings.json lists recorded and fixed defects.",
    }
    json.dump(m, open(os.path.join(ROOT, "MANIFEST.json"), "w"), indent=1)
    print("checks:", len(checks), "not_applicable:", len(na))

if __name__ == "__main__":
    main()
