#!/usr/bin/env python3
"""Regenerates /verif/MANIFEST.json from the table below (one entry per built check)."""
import json, os, subprocess
ROOT = os.path.dirname(os.path.dirname(os.path.abspath(__file__)))

CHECKS = {
 "C05": dict(
   text="Generated-input search against a count model: ~120k random (calendar, start date, operation, day count, flag) cases per quick run (2M thorough) covering add_bus_days, lag, bus_date_range and add_days, with day counts over the whole i8 range weighted to 0, +-1, +-2, +-127 and -128, business and non-business starts, plus an enumeration of all 256 day counts x both flags x three operations on sampled (built-in calendar, date) pairs. The oracle counts business days one at a time over the calendar's own predicates, applies the settlement roll in the direction of n, and asserts the inverse law and the error contract. Exploration only: it shows agreement on everything generated, not for every calendar.",
   note="Trusts is_bus_day/is_settlement of the calendar (C06/C07). lag(non-business date, 0, settlement=true) is under-specified by the documentation; both readings are accepted.",
   technique="property-based testing (proptest, shrinking) + bounded exhaustive enumeration against a day-by-day count model",
   design="5/C05"),
 "C06": dict(
   text="Generated-input search with full-range oracles: each of ~3.2k cases per quick run (64k thorough) is a combination spec, a valid name string, an invalid string or an equality pair, and every combination / name / pair is evaluated on EVERY date of 1970-2200 (84 371 dates): business day = business day in every member, settlement day = business day in every settlement calendar, named == explicit combination of its parts, and library `==` (all 8 implemented kind pairings, both operand orders) == the harness's own full-range behavioural comparison. Equality operands are constructed to be behaviourally equal but structurally different, or different on a single date (including the first/last day of the range and settlement-only differences), which is where an early-exit or settlement-blind comparison would go wrong.",
   note="For built-in members the built-in plain calendar itself is the 'part' (its content is C07's subject). Holiday sets of arbitrary members are at most ~60 dates.",
   technique="property-based testing (proptest) with metamorphic equality pairs and a date-exhaustive all/any reference model",
   design="5/C06"),
 "C07": dict(
   text="Exhaustive enumeration: every built-in calendar name x every date 1970-01-01..2200-12-31 (1.18M pairs), every calendar name in the get_calendar docstring (parsed at run time), and all nine shipped fixing histories (read at run time). The oracle is an independent re-implementation of the published rule scripts (pandas Holiday semantics: yearly reference date, weekday offsets, observance functions, start/end filters, Easter by the anonymous Gregorian algorithm cross-checked with Gauss's) on the harness's own Gregorian model: exact equivalence on weekdays for tgt, nyc, fed, ldn, stk, osl, zur; one-directional for the documented fixed-date / Easter-linked holidays of tro, tyo, syd, wlg, mum; no holidays for all/bus; fed == nyc minus Good Friday. The domain is finite and fully enumerated, so for the stated rules this is complete, not sampled.",
   note="The oracle is my reading of the *_script.py rule definitions; only weekdays are compared, as the property states.",
   technique="exhaustive enumeration against an independent rule-based reference model (data-table differential)",
   design="5/C07"),
 "C08": dict(
   text="Generated-input search against own Gregorian arithmetic: ~300k random add_months cases per quick run (10M thorough) over all start days (weight on days 28-31, leap/century years), month offsets of both signs (small, whole years, exact January/December landings, uniform targets), every roll kind and day 1-31, all modifiers and flags, always landing in 1970-2200; the unadjusted date is computed as month index 12y+m with the day capped at the month length (third Wednesday for IMM) and then adjusted with the C04 reference walk. get_imm / get_eom / get_roll / is_leap_year for every (year, month) and is_imm / is_eom for every date of 1970-2200 are enumerated completely. Per-branch floors make sure every carry branch (total <= 0, = 12, >= 13) and day capping are hit.",
   note="Adjustment after the month arithmetic is judged by the C04 reference walk; chrono's y/m/d is cross-checked against the civil model for every date in the range.",
   technique="property-based testing (proptest, shrinking) + exhaustive side tables against an independent civil-calendar model",
   design="5/C08"),
 "C04": dict(
   text="Generated-input search with an independent oracle: ~160k random (calendar, date, modifier, flag) cases per quick run (3M thorough) over plain, combined and named calendars with arbitrary week masks and holiday runs aimed at month/year ends and settlement-only closures, plus a sweep of every date x modifier x flag over the 14 built-in calendars and 6 typical combinations (30-year window quick, all of 1970-2200 thorough, where it is exhaustive). Each result is compared with a day-by-day reference walk; fixed-point and idempotence laws are asserted. Exploration cannot show absence for arbitrary user calendars, but the built-in sweep is complete.",
   note="Trusts the calendar object's own is_bus_day/is_settlement (decided by C06/C07); midnight timestamps only; holiday runs <= 12 days.",
   technique="property-based testing (proptest, shrinking) + exhaustive enumeration against a reference walk",
   design="5/C04"),
}

def main():
    props = [json.loads(l) for l in open(os.path.join(ROOT, "properties.jsonl"))]
    hooks_commits = subprocess.run(["git","-C","/repo","log","--format=%H %s"],capture_output=True,text=True).stdout.splitlines()
    hook_shas = [l.split()[0] for l in hooks_commits if "verif hooks" in l or "verif_hooks" in l]
    checks = []
    na = []
    for p in props:
        pid = p["id"]
        if pid in CHECKS:
            c = CHECKS[pid]
            checks.append({
                "property_id": pid,
                "quick_cmd": f"./check {pid} --tier quick",
                "thorough_cmd": f"./check {pid} --tier thorough",
                "evidence_file": f"/verif/evidence/{pid}.json",
                "replay_cmd_template": f"./check {pid} --replay {{path}}",
                "engine": "rlverif",
                "level_claimed": {"category": "exploration", "text": c["text"], "design_ref": c["design"]},
                "level_note": c["note"],
                "technique": c["technique"],
            })
        else:
            na.append({"property_id": pid, "reason": "check not built yet at this commit (property-based check designed in DESIGN.md section 5; it will be claimed once its harness module exists and is silent on the unchanged tree)"})
    m = {
        "version": 1,
        "setup_cmd": "./setup.sh",
        "hooks": {
            "guard": "cargo feature verif_hooks (rateslib/Cargo.toml [features]); off by default",
            "enable": "the harness crate /verif/harness depends on rateslib by path with features = [\"verif_hooks\"]; the fuzz crate does the same",
            "baseline_off_cmd": "cd /repo && cargo test --workspace --no-fail-fast --offline",
            "source_commits": hook_shas,
            "add_only": True,
        },
        "engines": [{
            "name": "rlverif",
            "path": "/verif/harness",
            "serves_properties": sorted(CHECKS.keys()),
            "kind_free_text": "Rust binary: proptest strategies driven from a fixed seed over 16 shards, exhaustive enumerators for finite sub-domains, independent reference models, shrinking to JSON replay files, known-findings matcher, evidence writer",
        }],
        "checks": checks,
        "not_applicable": na,
        "notes": "Entry point ./check <ID> --tier quick|thorough; exit 0/1/2 (2 = inconclusive or infrastructure, never a verdict). VERIF_SEED selects the seed (default 1). known_findings.json lists recorded and fixed defects.",
    }
    json.dump(m, open(os.path.join(ROOT, "MANIFEST.json"), "w"), indent=1)
    print("checks:", len(checks), "not_applicable:", len(na))

if __name__ == "__main__":
    main()
