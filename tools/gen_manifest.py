#!/usr/bin/env python3
"""Regenerates /verif/MANIFEST.json from the table below (one entry per built check)."""
import json, os, subprocess
ROOT = os.path.dirname(os.path.dirname(os.path.abspath(__file__)))

CHECKS = {
 "C01": dict(
   text="Generated-input search over expression programs with an independent oracle: 1.2M random programs per quick run (40M thorough, plus ~1M coverage-guided executions; depth <= 6, 1-25 nodes, 1-5 variables) over + - * / neg abs exp log norm_cdf inv_norm_cdf and real powers, every binary node in one of the 4 ownership forms with bare floats on either side, leaves tagged as own variable / padded permuted list / shared list; an interpreter dispatches each node to the exact trait impl and per-variant hit counters have floors, so each of the ~60 macro-generated variants is exercised. Value is compared with plain f64 evaluation, the gradient with an independent dense forward-mode evaluator under a first-order running error bound (plus the metamorphic twin with constants promoted to duals). It cannot prove exactness for all programs; it shows no variant disagrees on what was generated.",
   note="Points are kept differentiable by a deterministic sanitiser; tolerance 1e-10 x running error bound, with an explicit allowance (5e-11 absolute, propagated) for the measured branch-point jumps of the float normal cdf implementation; reference cross-checked by finite differences on ~2% of cases.",
   technique="property-based testing (proptest, shrinking) with a differential oracle (independent dense forward-mode AD) and a metamorphic twin",
   design="5/C01"),
 "C02": dict(
   text="The C01 programs evaluated on second-order numbers: 800k per quick run (25M thorough) with a requested variable list (any order / subset / superset). gradient2 must be symmetric and equal to the reference Hessian (true second derivatives, 1e-9 x running error bound); value and gradient must agree with the reference and with the same program run on first-order numbers; From<Dual2>/From<&Dual2> for Dual must keep value, names and first derivatives bit-for-bit. Floors require cross terms after >= 3 composed operations in >= 20% of cases and every Dual2 operator variant to be hit.",
   note="As C01; second-order error terms are covered by loose magnitude floors (eps^2 scale).",
   technique="property-based testing (proptest, shrinking) with a differential oracle (independent dense second-order forward-mode AD)",
   design="5/C02"),
 "C03": dict(
   text="Exhaustive enumeration of every pair of ordered subsets of a 4-name universe (65 x 65 layouts) x {own, shared storage} x {+,-,*,/,%,==} x {Dual, Dual2} with name-dependent dyadic coefficients, plus 1M random layout pairs over 8 names per quick run (20M thorough) with zero padding and pairs built equal-by-name in different layouts or differing in exactly one coefficient. Oracle: independent by-name formulas per operator, invariance against the same operands on one shared sorted list, result variables == set union (each once) with matching array shapes, == <=> equal by name with missing == 0 (both operand orders). The small-universe enumeration is complete for layout relationships; values are sampled.",
   note="Results are read from the result's own arrays, not through gradient1/2 (C17). Name order on results is not asserted.",
   technique="exhaustive layout enumeration + property-based testing (proptest) against independent by-name formulas and a layout-invariance metamorphic relation",
   design="5/C03"),
 "C09": dict(
   text="Generated-input search: 150k random quote sets per quick run (5M thorough): labelled trees on 2-12 currencies (random recursive trees, forced chains and stars, random relabelling, orientation, quote order, base, optional settlement date, rates over 8 orders of magnitude), ~40% deliberately damaged (under/over-specified, cycle plus island with the right count, duplicate and reverse-duplicate pairs, mixed settlement, base outside). A union-find decides validity; for valid sets all n*n crosses are checked against BFS path products (1e-12), quoted pairs bit-exact, diagonal exactly 1, inverse law, and a reshuffled / re-based twin market; invalid sets must be rejected.",
   note="Rates are plain floats here (dual quotes are C10's subject).",
   technique="property-based testing (proptest, shrinking) against a graph reference model (union-find + BFS path product) and a metamorphic twin",
   design="5/C09"),
 "C10": dict(
   text="Model-based (stateful) testing: 25k random histories per quick run (1.2M thorough) of 0-12 operations (update, set order 0/1/2, three kinds of refused update) on valid markets with float and dual quotes, interpreted against a model holding the latest quotes; after construction and after every step all n*n rates, their first-order sensitivities by variable NAME (fx_xxxyyy / own variables / zero elsewhere) and, at order 2, their Hessians are compared with analytic path formulas, updates with a directly built market, refused updates with a clone (== and bit-identical rates), order switches for value preservation. The history shrinks as one value.",
   note="Order after an update is not asserted; second-order numbers as input quotes are not generated.",
   technique="stateful model-based property testing (operation sequences as vec(op) + interpreter, proptest shrinking) with analytic sensitivity oracle",
   design="5/C10"),
 "C17": dict(
   text="1M random (stored number, requested name list) cases per quick run (25M thorough): layouts of 0-5 of 8 names, symmetric and non-symmetric second-order storage, requests equal to the stored list (fast path), reversed, subsets, supersets with absent names at any position, free lists, empty. gradient1/gradient2 must be exactly the stored coefficient (x2) or 0 in the requested order; gradient1_manifold entries must have value = first derivative, own gradient = Hessian row (zero for absent names), no second-order part; the product rule on manifolds must reproduce the Hessian of a product.",
   note="Requested names are distinct, as the property states.",
   technique="property-based testing (proptest, shrinking) against an exact by-name lookup model and an algebraic identity",
   design="5/C17"),
 "C18": dict(
   text="300k random tuples per quick run (8M thorough), and for every tuple the complete tables: 3 source kinds x 3 target orders through set_order, set_order_clone and every From impl against the conversion table (bit-exact), and {+,-,*,/,%} x all 9 kind pairings (ref and owned forms) plus float-left/right, ==, partial_cmp, neg, abs, exp, log, norm_cdf, inv_norm_cdf, pow, signum, abs_sub, sum, zero, one on the container against the same operation written on the contained types (bit-exact); first-order with second-order pairings must not return a value. Floors require every cell of the table.",
   note="The contained types' arithmetic is the reference (verified by C01-C03); any panic counts as refusal.",
   technique="property-based testing (proptest) with complete operator/kind tables per case; differential against the contained types",
   design="5/C18"),
 "C19": dict(
   text="500k random cases per quick run (12M thorough) over both kinds: comparisons between numbers and with floats on either side against the float comparison of the values, unchanged under replacement of derivative parts; abs; remainder in all operand forms against a - b*trunc(a/b) by name and the float remainder; sums against a left fold from zero; additive/multiplicative identities by name; is_zero. Sign quadrants of (a, b) have floors.",
   note="abs at 0 and zero divisors are excluded (documented as undefined).",
   technique="property-based testing (proptest, shrinking) with metamorphic (derivative-replacement) and algebraic-law oracles",
   design="5/C19"),
 "C11": dict(
   text="1M random (rule, node set, query dates) cases per quick run (40M thorough): 2-12 nodes with spacings from 1 second to ~6 years, shuffled or sorted supply, queries before / after / exactly on / 1 s beside / between nodes; each curve is built through the generic constructor (shuffled and sorted) and through the Python-facing constructor (hook), all three must agree bit-for-bit and compare equal; the interval index must equal the linear-scan model and the value the closed form of the rule (1e-12 x conditioning, flat rules exact); node dates return node values; betweenness for linear / log-linear; index_left is additionally driven directly on float lists through the hook.",
   note="Tolerance scales with a conditioning factor of the rule at the query point (large only for absurd extrapolation or a seconds-long first interval under the zero-rate rule).",
   technique="property-based testing (proptest, shrinking) against closed-form reference interpolation and a three-way constructor differential",
   design="5/C11"),
 "C12": dict(
   text="Model-based testing of order histories: 300k random (curve, constructor, initial order, 0-6 switches over {0,1,2}, queries) cases per quick run (6M thorough) with float nodes and nodes given as first / second-order numbers with custom variable names; a model tracks the tagging (none / id+i in date order / custom) through every transition; after construction and every switch each look-up must keep its value, be of the curve's order, and have gradient and Hessian BY NAME equal to the closed-form partials of the interpolation formula combined by the chain rule (zero outside the interval); ad() and index_value (value, order, gradient, zero before the first node, error without base) are checked too. All 9 transitions have floors.",
   note="Derivative checks are skipped (counted) where the value is beyond 1e+-30 (absurd extrapolation).",
   technique="stateful model-based property testing (switch sequences, proptest shrinking) with closed-form derivative oracle",
   design="5/C12"),
 "C13": dict(
   text="200k random systems per quick run (5M thorough): square 1-8 and tall up to 14x6, built as (unit lower or identity) x (sparse upper) with shuffled rows so that partial pivoting must swap rows (also in later columns, with zeros on the diagonal), entries lifted to derivative content over 3 names with differing layouts, through dsolve::<f64|Dual|Dual2|Number> (Number mixing floats with a dual kind) and fdsolve with b of f64|Dual|Dual2. The returned x, read by name, must satisfy A x = b and the once and twice differentiated systems (normal equations for least squares) with residuals <= 1e-9 x cond x scale, and be unchanged under a row permutation of the system.",
   note="Only well-conditioned draws (cond_1 < 1e6, own estimate) are judged; singular systems are outside the property.",
   technique="property-based testing (proptest, shrinking) with a residual oracle on differentiated linear systems and a row-permutation metamorphic relation",
   design="5/C13"),
 "C14": dict(
   text="800k random (order, knot sequence, evaluation points) cases per quick run (25M thorough), and for every point ALL basis indices and ALL derivative orders 0..k+1: equality with the Cox-de Boor recursion carried out independently on polynomial coefficient vectors per knot span (right limit, left limit at the right end point), non-negativity, exact zero outside the support, partition of unity, derivative sums zero, exact zero for m >= k. Points are drawn exactly on knots (incl. repeated interior knots up to multiplicity k-1), at both end points, at the doubles adjacent to knots, at midpoints and uniformly.",
   note="Knots lie on a quarter grid so that evaluation exactly at knots is representable; spans 0.25..4.",
   technique="property-based testing (proptest, shrinking) against an independent piecewise-polynomial reference",
   design="5/C14"),
 "C15": dict(
   text="120k random solves per quick run (4M thorough): orders 2-6, Greville sites with end rows of derivative order 0-2 or the callers' natural / clamped layout for order 4, random or polynomial data, float / first-order / second-order data, optional least squares. Coefficients x the independent reference basis must reproduce every data row and end condition; polynomial data are reproduced with all derivatives everywhere; library evaluation == coefficients x reference basis; dual abscissae (plain variables and numbers with their own first- and second-order content) return s', s'' by the chain rule; sensitivities to data equal the independently inverted collocation matrix (and the library's own unit-data spline) with zero Hessian; the spline-kind x abscissa-kind table returns matching kinds and refuses first/second-order mixes; unsolved evaluation and mismatched lengths are errors.",
   note="Site sets are admissible by construction; draws with cond >= 1e8 are skipped and counted (about 1%).",
   technique="property-based testing (proptest, shrinking) against an independent basis + linear-algebra reference and a polynomial-reproduction oracle",
   design="5/C15"),
 "C16": dict(
   text="40k random objects per quick run (3M thorough) of every serialisable type, each through every path that exists for it (direct JSON, tagged from_json entry point via the hook, bincode): load(save(x)) must equal x under the type's own equality AND answer a per-type query set bit-identically; doubles are raw bit patterns / full random mantissas (17 significant digits), names include unicode and characters needing escaping; named calendars must be stored by name only and FX markets as quotes + currencies only. 24 per-type / per-state floors.",
   note="NaN/inf excluded; FX markets saved in second-order state are compared by value and rate table only (lowering second order reproduces a first-order build only to the last bit).",
   technique="property-based testing (proptest, shrinking) with round-trip oracles over three serialisation paths",
   design="5/C16"),
 "C20": dict(
   text="300k random cases per quick run (20M thorough) in three families under catch_unwind: (A) every result-returning constructor / operation with arbitrary arguments of the declared types, with Ok/Err predicted by explicit models (length rules, 3-letter rule, union-find for FX, name parser, own rank test classifying csolve's collocation matrix); (B) day / business-day / lag / month arithmetic and adjustment over the whole i8 range, month offsets landing in 1970-2200, roll days 1-31 on arbitrary calendars; (C) valid JSON documents of 14 kinds, direct and tagged, with 1-3 structural mutations (delete, duplicate key/element, replace, wrong string, resize, perturb): no panic, and every accepted object is re-saved and must satisfy the shape rules of numbers and splines; loaded FX markets must answer all rates. Known findings are matched on (entry point, input class, panic site) and excluded from the search so that it continues behind them. The thorough tier adds a coverage-guided libFuzzer campaign on the JSON entry points.",
   note="One known finding is listed (csolve on a singular collocation matrix panics); six defects found by this check (one of them by its libFuzzer target) were repaired in /repo.",
   technique="property-based testing (proptest, shrinking) + structural JSON mutation fuzzing with panic capture and contract models; libFuzzer in the thorough tier",
   design="5/C20"),
 "C05": dict(
   text="Generated-input search against a count model: ~300k random (calendar, start date, operation, day count, flag) cases per quick run (10M thorough) covering add_bus_days, lag, bus_date_range and add_days, with day counts over the whole i8 range weighted to 0, +-1, +-2, +-127 and -128, business and non-business starts, plus an enumeration of all 256 day counts x both flags x three operations on sampled (built-in calendar, date) pairs. The oracle counts business days one at a time over the calendar's own predicates, applies the settlement roll in the direction of n, and asserts the inverse law and the error contract. Exploration only: it shows agreement on everything generated, not for every calendar.",
   note="is_bus_day of a plain calendar (a leaf) is ground truth for built-in parts (C07); the combination rule is re-derived from the parts. lag(non-business date, 0, settlement=true) is under-specified by the documentation; both readings are accepted.",
   technique="property-based testing (proptest, shrinking) + bounded exhaustive enumeration against a day-by-day count model",
   design="5/C05"),
 "C06": dict(
   text="Generated-input search with full-range oracles: each of ~4k cases per quick run (200k thorough) is a combination spec, a valid name string, an invalid string or an equality pair, and every combination / name / pair is evaluated on EVERY date of 1970-2200 (84 371 dates): business day = business day in every member, settlement day = business day in every settlement calendar, named == explicit combination of its parts, and library `==` (all 8 implemented kind pairings, both operand orders) == the harness's own full-range behavioural comparison. Equality operands are constructed to be behaviourally equal but structurally different, or different on a single date (including the first/last day of the range and settlement-only differences), which is where an early-exit or settlement-blind comparison would go wrong.",
   note="For built-in members the built-in plain calendar itself is the 'part' (its content is C07's subject). Holiday sets of arbitrary members are at most ~60 dates.",
   technique="property-based testing (proptest) with metamorphic equality pairs and a date-exhaustive all/any reference model",
   design="5/C06"),
 "C07": dict(
   text="Exhaustive enumeration: every built-in calendar name x every date 1970-01-01..2200-12-31 (1.18M pairs), every calendar name in the get_calendar docstring (parsed at run time), and all nine shipped fixing histories (read at run time). The oracle is an independent re-implementation of the published rule scripts (pandas Holiday semantics: yearly reference date, weekday offsets, observance functions, start/end filters, Easter by the anonymous Gregorian algorithm cross-checked with Gauss's) on the harness's own Gregorian model: exact equivalence on weekdays for tgt, nyc, fed, ldn, stk, osl, zur; one-directional for the documented fixed-date / Easter-linked holidays of tro, tyo, syd, wlg, mum; no holidays for all/bus; fed == nyc minus Good Friday. The domain is finite and fully enumerated, so for the stated rules this is complete, not sampled.",
   note="The oracle is my reading of the *_script.py rule definitions; only weekdays are compared, as the property states.",
   technique="exhaustive enumeration against an independent rule-based reference model (data-table differential)",
   design="5/C07"),
 "C08": dict(
   text="Generated-input search against own Gregorian arithmetic: ~400k random add_months cases per quick run (30M thorough) over all start days (weight on days 28-31, leap/century years), month offsets of both signs (small, whole years, exact January/December landings, uniform targets), every roll kind and day 1-31, all modifiers and flags, always landing in 1970-2200; the unadjusted date is computed as month index 12y+m with the day capped at the month length (third Wednesday for IMM) and then adjusted with the C04 reference walk. get_imm / get_eom / get_roll / is_leap_year for every (year, month) and is_imm / is_eom for every date of 1970-2200 are enumerated completely. Per-branch floors make sure every carry branch (total <= 0, = 12, >= 13) and day capping are hit.",
   note="Adjustment after the month arithmetic is judged by the C04 reference walk; chrono's y/m/d is cross-checked against the civil model for every date in the range.",
   technique="property-based testing (proptest, shrinking) + exhaustive side tables against an independent civil-calendar model",
   design="5/C08"),
 "C04": dict(
   text="Generated-input search with an independent oracle: ~300k random (calendar, date, modifier, flag) cases per quick run (12M thorough) over plain, combined and named calendars with arbitrary week masks and holiday runs aimed at month/year ends and settlement-only closures, plus a sweep of every date x modifier x flag over the 14 built-in calendars and 6 typical combinations (30-year window quick, all of 1970-2200 thorough, where it is exhaustive). Each result is compared with a day-by-day reference walk; fixed-point and idempotence laws are asserted. Exploration cannot show absence for arbitrary user calendars, but the built-in sweep is complete.",
   note="is_bus_day of a plain calendar (a leaf) is ground truth for built-in parts (C07 decides the tables); midnight timestamps only; holiday runs <= 160 days (mostly 1-12).",
   technique="property-based testing (proptest, shrinking) + exhaustive enumeration against a reference walk",
   design="5/C04"),
}

# extensions made after the seeded rounds (appended to the level text of the property)
ADDED = {
 "C04": " Holiday runs include whole months and closures of 100-160 days. Since the third seeded round is_bus_day / is_settlement are no longer trusted: both are re-derived from the calendar's parts (week masks, holiday lists, the split name) and compared on every date between input and result.",
 "C05": " Holiday runs include whole months and closures of 100-160 days. The eligibility predicates are re-derived from the calendar's parts on the fortnight around each start date.",
 "C01": " Variable names include pairs differing in letter case only; padded leaves may hold their arrays in reversed memory order.",
 "C02": " Variable names include pairs differing in letter case only; padded leaves may hold their arrays in reversed memory order.",
 "C03": " The 4-name universe contains a case-twin pair; a quarter of the random cases hold operand arrays in reversed memory order; a wide stage uses 20-70 of 100 names per operand (unions beyond 64).",
 "C06": " Equality pairs include a masked weekday expressed as the list of all its dates.",
 "C08": " Every add_months case is repeated with a time of day on the start date.",
 "C12": " A fifth of the curves have flat sections (equal neighbouring node values), some are all ones.",
 "C17": " A wide stage stores 17-40 of 100 names with requests differing among the early names; a long-request stage asks for 257-320 names.",
 "C18": " First-order / second-order pairs derived from one another (shared storage) must be refused too; every operand is also combined with itself.",
 "C09": " The re-based twin market spells every occurrence of a currency code in its own mix of upper and lower case; every dated valid set is also tried with one / all settlements moved by a fraction of a second.",
 "C10": " 20% of update items re-quote a pair at its current value (only the number kind / own variables change); refused updates include a quoted pair with another settlement date.",
 "C11": " The generic constructor is fed float, first-order and second-order node values; a fifth of the curves have flat sections, some are all ones.",
 "C13": " A and b are handed over as row-major, column-major or strided views; least squares is also allowed on square systems; whole systems are scaled by exact powers of two (2^+-35..70) in 25% of draws; a fifth of the systems have small integer entries (exact pivot ties); 30% of the tall systems repeat an equation.",
 "C14": " 40% of the knot sequences are scaled by 2^-70..-30 or 2^20..40; the vectorised entry points PPSpline::bspldnev / bsplmatrix are compared with the scalar functions; 2.5% of the sequences have 64-190 knots; zero points are passed as -0.0 in half of the cases.",
 "C15": " Also: basis functions at dual abscissae through the four public dual entry points, dual data x dual abscissa for m = 0 and 1 with mixed second-order terms, re-solving an object (history independence), too few sites with least squares allowed, a scale-covariance relation (the problem re-solved on a domain multiplied by 2^-70..-30 / 2^20..40), interior data sites listed in another order, and a long-knot-sequence evaluation stage (270-390 knots).",
 "C16": " FX markets are saved freshly built or after 1-2 quote updates; settlement date-times carry sub-second parts; calendar documents with the holiday list in another order; wide numbers loaded back to back.",
 "C19": " Comparisons also through the Number container in six operand positions and on pairs of special floats (signed zeros, NaN, infinities, neighbouring doubles, subnormals); sums through five kinds of iterator and of related terms; decimal remainder pairs with near-integer quotients.",
 "C20": " Documents are also mutated by re-shaping a serialised array (same element count) and by making a serialised spline degenerate in three fields at once; add_bus_days is held to its error contract (error iff non-business start).",
}

def main():
    props = [json.loads(l) for l in open(os.path.join(ROOT, "properties.jsonl"))]
    hooks_commits = subprocess.run(["git","-C","/repo","log","--format=%H %s"],capture_output=True,text=True).stdout.splitlines()
    hook_shas = [l.split()[0] for l in hooks_commits if "verif hooks" in l or "verif_hooks" in l]
    checks = []
    na = []
    for p in props:
        pid = p["id"]
        if pid in CHECKS:
            c = CHECKS[pid]
            checks.append({
                "property_id": pid,
                "quick_cmd": f"./check {pid} --tier quick",
                "thorough_cmd": f"./check {pid} --tier thorough",
                "evidence_file": f"/verif/evidence/{pid}.json",
                "replay_cmd_template": f"./check {pid} --replay {{path}}",
                "engine": "rlverif",
                "level_claimed": {"category": "exploration", "text": c["text"] + ADDED.get(pid, ""), "design_ref": c["design"]},
                "level_note": c["note"],
                "technique": c["technique"],
            })
        else:
            na.append({"property_id": pid, "reason": "check not built yet at this commit (property-based check designed in DESIGN.md section 5; it will be claimed once its harness module exists and is silent on the unchanged tree)"})
    m = {
        "version": 1,
        "setup_cmd": "./setup.sh",
        "hooks": {
            "guard": "cargo feature verif_hooks (rateslib/Cargo.toml [features]); off by default",
            "enable": "the harness crate /verif/harness depends on rateslib by path with features = [\"verif_hooks\"]; the fuzz crate does the same",
            "baseline_off_cmd": "cd /repo && cargo test --workspace --no-fail-fast --offline",
            "source_commits": hook_shas,
            "add_only": True,
        },
        "engines": [{
            "name": "rlverif-fuzz",
            "path": "/verif/fuzz",
            "serves_properties": sorted(k for k in CHECKS.keys() if k != "C07"),
            "kind_free_text": "cargo-fuzz / libFuzzer targets: `prop` (input bytes = random stream of the property's own proptest strategy via a patched pass-through RNG in /verif/vendor/proptest; same oracles, replay files and known-findings matcher) and `json_load` (raw JSON text into every loader, C20); thorough tier only",
        }, {
            "name": "rlverif",
            "path": "/verif/harness",
            "serves_properties": sorted(CHECKS.keys()),
            "kind_free_text": "Rust binary: proptest strategies driven from a fixed seed over 16 shards, exhaustive enumerators for finite sub-domains, independent reference models, shrinking to JSON replay files, known-findings matcher, evidence writer",
        }],
        "checks": checks,
        "not_applicable": na,
        "notes": "Entry point ./check <ID> --tier quick|thorough; exit 0/1/2 (2 = inconclusive or infrastructure, never a verdict). VERIF_SEED selects the seed (default 1). The thorough tier appends a coverage-guided libFuzzer stage (tools/fuzz_stage.sh; needs the nightly toolchain, otherwise it is skipped and recorded as such). known_findings.json lists 1 recorded and 12 repaired defects; seeded/ holds 149 confirmed breaking changes with the check that catches each (DESIGN.md section 12).",
    }
    json.dump(m, open(os.path.join(ROOT, "MANIFEST.json"), "w"), indent=1)
    print("checks:", len(checks), "not_applicable:", len(na))

if __name__ == "__main__":
    main()
