#!/bin/bash
# tools/fuzz_stage.sh <PROPERTY-ID>  - the coverage-guided stage of the thorough tier (additive).
# Builds the libFuzzer targets of /verif/fuzz against /repo's working tree (nightly, offline) and
# runs a bounded campaign (-runs, fixed -seed, fresh corpus):
#   every supported property: target `prop` (input bytes = random stream of the property's own
#                             proptest strategy; same generators, models and oracles as ./check)
#   C20 additionally:         target `json_load` (raw JSON text into every loader), seeded with
#                             valid documents of every kind.
# A violation found by a target is written as a plain replay file and reported on stdout as
# "VIOLATION property=<id> replay=<path>" (exit 1). Build problems, libFuzzer timeouts/OOMs are
# reported as inconclusive (exit 2), never as violations. Statistics are merged into
# evidence/<ID>.json under coverage.fuzz.
set -u
ID="$1"
ROOT="$(cd "$(dirname "$0")/.." && pwd)"
export RLVERIF_ROOT="$ROOT" CARGO_NET_OFFLINE=true
# executions per worker; fixed work, scaled to the cost of one case of the property so that every
# stage takes a few minutes on 16 cores (C06 compares calendars date by date over 230 years)
case "$ID" in
    C06) DEFAULT_RUNS=2500;;
    C16) DEFAULT_RUNS=12000;;
    C09|C10) DEFAULT_RUNS=30000;;
    *) DEFAULT_RUNS=60000;;
esac
RUNS="${RLVERIF_FUZZ_RUNS:-$DEFAULT_RUNS}"        # per worker
JOBS="${RLVERIF_FUZZ_JOBS:-16}"
SEED="${VERIF_SEED:-1}"; [ "$SEED" = "0" ] && SEED=1
WORK="$ROOT/fuzz/corpus-work/$ID"
rm -rf "$WORK"; mkdir -p "$WORK"
note() { python3 - "$ROOT/evidence/$ID.json" "$1" "$2" <<'PY'
import json,sys
p,key,val=sys.argv[1],sys.argv[2],sys.argv[3]
try:
    e=json.load(open(p))
except Exception:
    sys.exit(0)
f=e.setdefault("coverage",{}).setdefault("fuzz",{})
try: f[key]=json.loads(val)
except Exception: f[key]=val
json.dump(e,open(p,"w"),indent=1)
PY
}
case "$ID" in C07) echo "fuzz stage: not applicable to $ID (finite domain, enumerated completely)"; exit 0;; esac
cd "$ROOT/fuzz" || exit 2
if ! cargo +nightly fuzz build --sanitizer none --fuzz-dir "$ROOT/fuzz" >"$ROOT/fuzz/target-build.log" 2>&1; then
    echo "fuzz stage skipped: nightly fuzz build failed (see fuzz/target-build.log); the proptest result stands"
    note status "skipped: fuzz build failed"
    exit 0
fi
BIN="$ROOT/fuzz/target/x86_64-unknown-linux-gnu/release"
STATUS=0
run_target() {   # name, corpus-dir, extra env
    local T="$1" C="$2"
    mkdir -p "$C" "$WORK/art-$T" "$WORK/logs-$T"
    ( cd "$WORK/logs-$T" && RLVERIF_FUZZ_ID="$ID" "$BIN/$T" "$C" -runs="$RUNS" -seed="$SEED" -jobs="$JOBS" -workers="$JOBS" \
        -detect_leaks=0 -len_control=0 -max_len=4096 -timeout=60 -rss_limit_mb=4096 -print_final_stats=1 \
        -artifact_prefix="$WORK/art-$T/" >"$WORK/logs-$T/driver.log" 2>&1 )
    local EXECS=$(grep -h "stat::number_of_executed_units" "$WORK/logs-$T"/fuzz-*.log 2>/dev/null | awk '{s+=$2} END {print s+0}')
    local UNITS=$(ls "$C" | wc -l)
    note "$T" "{\"executions\": $EXECS, \"corpus_units\": $UNITS, \"workers\": $JOBS, \"runs_per_worker\": $RUNS, \"seed\": $SEED}"
    echo "fuzz stage: target $T for $ID: $EXECS executions, corpus $UNITS units"
    if grep -h "^VIOLATION property=" "$WORK/logs-$T"/fuzz-*.log 2>/dev/null | sort -u | head -5 | grep . ; then
        grep -h -A2 "^VIOLATION property=" "$WORK/logs-$T"/fuzz-*.log | grep -E "clause|detail" | sort -u | head -6
        STATUS=1
    elif ls "$WORK/art-$T" 2>/dev/null | grep -q -E "^(timeout|oom|crash)-"; then
        echo "INCONCLUSIVE: libFuzzer left $(ls "$WORK/art-$T" | head -3 | tr '\n' ' ') in $WORK/art-$T (timeout / out-of-memory / crash outside the oracles)"
        [ $STATUS -eq 0 ] && STATUS=2
    fi
}
run_target prop "$WORK/corpus-prop"
if [ "$ID" = "C20" ]; then
    "$ROOT/harness/target/release/rlverif" C20 --gen-corpus "$WORK/corpus-json" >/dev/null 2>&1
    run_target json_load "$WORK/corpus-json"
fi
note status "$( [ $STATUS -eq 0 ] && echo completed || echo "exit $STATUS" )"
rm -rf "$WORK"/corpus-* 2>/dev/null
exit $STATUS
