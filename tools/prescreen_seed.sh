#!/bin/bash
# tools/prescreen_seed.sh <name e.g. C01d> <ids...>  - development aid, not used by any registered check.
# Runs a scratch copy of this harness (a git worktree of /verif at /tmp/vx, created on demand) against
# a seeded change in ITS OWN scratch worktree of /repo (/tmp/wt-<name>, patch /tmp/seed/<name>/patch.diff
# applied there), so that /repo itself stays untouched - useful while a long `vp run` is using /repo.
# The regular evaluation (tools/try_seed.sh: git -C /repo apply ... checkout) is still done afterwards.
NAME="$1"; shift
WT=/tmp/wt-$NAME
ROOT="$(cd "$(dirname "$0")/.." && pwd)"
[ -d /tmp/vx ] || git -C "$ROOT" worktree add -q --detach /tmp/vx HEAD
cd "$WT" || exit 2
git checkout -q -- . 2>/dev/null
git checkout -q --detach "$(git -C /repo rev-parse HEAD)" 2>/dev/null   # follow fix commits made in /repo meanwhile
git apply /tmp/seed/$NAME/patch.diff || { echo "$NAME: patch does not apply"; exit 2; }
sed -i "s#path = \"[^\"]*\", features = \[\"verif_hooks\"\]#path = \"$WT\", features = [\"verif_hooks\"]#" /tmp/vx/harness/Cargo.toml
cd /tmp/vx
for P in "$@"; do
  ./check $P --tier quick > /tmp/prescreen_${NAME}_$P.log 2>&1; RC=$?
  echo "[$NAME] prescreen $P exit $RC $(grep -m1 -E '^  clause:' /tmp/prescreen_${NAME}_$P.log | cut -c1-170)"
done
