#!/usr/bin/env python3
"""tools/keep_seed.py <name e.g. C04a> <needs: one line> : file a confirmed seeded change under /verif/seeded/<name>/"""
import sys, os, shutil, json, re
name, needs = sys.argv[1], sys.argv[2]
pid = name[:-1]
src = f"/tmp/seed/{name}"
dst = f"/verif/seeded/{name}"
os.makedirs(dst, exist_ok=True)
shutil.copy(f"{src}/patch.diff", f"{dst}/patch.diff")
demo = f"demo_{pid.lower()}.rs"
shutil.copy(f"{src}/{demo}", f"{dst}/{demo}")
if os.path.exists(f"{src}/notes.md"):
    shutil.copy(f"{src}/notes.md", f"{dst}/notes.md")
logdir = f"/verif/sensitivity/{name}"
results = {}
for f in sorted(os.listdir(logdir)):
    m = re.match(r"check_(C\d+)\.log", f)
    if m:
        txt = open(os.path.join(logdir, f)).read()
        viol = [l.strip() for l in txt.splitlines() if l.strip().startswith("clause:")]
        results[m.group(1)] = {"caught": "VIOLATION" in txt, "clauses": viol[:3]}
suite = open(f"{logdir}/suite_with.log").read()
meta = {
    "name": name,
    "breaks_property": pid,
    "needs_to_manifest": needs,
    "files_changed": sorted(set(re.findall(r"^\+\+\+ b/(.*)$", open(f"{dst}/patch.diff").read(), re.M))),
    "confirmed_by_me": {
        "existing_suite_with_change": [l for l in suite.splitlines() if l.startswith("test result")][:1],
        "demo_with_change": "fails (cargo test --offline --test %s exit != 0)" % demo[:-3],
        "demo_without_change": "passes",
        "where": "scratch worktree /tmp/wt-%s (removed afterwards)" % name,
    },
    "checks_run_against_it": results,
    "how_to_rerun": f"git -C /repo apply /verif/seeded/{name}/patch.diff && ./check {pid} --tier quick ; git -C /repo checkout -- .",
}
json.dump(meta, open(f"{dst}/meta.json", "w"), indent=1)
print(name, {k: v["caught"] for k, v in results.items()})
