#!/bin/bash
# tools/recheck_seeds.sh [name ...]  - regression of the machinery's sensitivity.
# For every kept seeded change (/verif/seeded/<name>/, default: all) apply its patch to /repo, run the
# quick tier of every check that meta.json records as catching it, and undo the patch straight
# afterwards.  Prints one line per (change, check) and a summary; exit 1 if a change that used to be
# caught is no longer caught.  Evidence and replay files are restored afterwards (they must
# describe the unchanged tree).  Refuses to start when /repo is dirty.
set -u
ROOT="$(cd "$(dirname "$0")/.." && pwd)"
cd "$ROOT" || exit 2
git -C /repo diff --quiet || { echo "/repo is dirty, refusing"; exit 2; }
NAMES=("$@")
[ ${#NAMES[@]} -eq 0 ] && NAMES=($(ls "$ROOT/seeded"))
KEEP="$(mktemp -d "$ROOT/.recheck.XXXXXX")"
cp -r "$ROOT/evidence" "$KEEP/evidence"
find "$ROOT/replays" -type f | sort > "$KEEP/replays_before"
MISSED=0; TOTAL=0
for NAME in "${NAMES[@]}"; do
  META="$ROOT/seeded/$NAME/meta.json"
  [ -f "$META" ] || continue
  IDS=$(python3 -c "import json,sys; m=json.load(open('$META')); print(' '.join(k for k,v in m['checks_run_against_it'].items() if v['caught']))")
  git -C /repo apply "$ROOT/seeded/$NAME/patch.diff" || { echo "$NAME: patch does not apply"; MISSED=$((MISSED+1)); continue; }
  for P in $IDS; do
    OUT=$(./check "$P" --tier quick 2>&1); RC=$?
    TOTAL=$((TOTAL+1))
    if [ $RC -eq 1 ]; then
      echo "$NAME $P caught   $(echo "$OUT" | grep -m1 -E '^  clause:' | cut -c1-140)"
    else
      echo "$NAME $P NOT CAUGHT (exit $RC)"; MISSED=$((MISSED+1))
    fi
  done
  git -C /repo checkout -- .
done
find "$ROOT/replays" -type f | sort > "$KEEP/replays_after"
comm -13 "$KEEP/replays_before" "$KEEP/replays_after" | xargs -r rm -f
rm -rf "$ROOT/evidence"; mv "$KEEP/evidence" "$ROOT/evidence"; rm -rf "$KEEP"
echo "recheck: $TOTAL (change, check) pairs, $MISSED not caught"
[ $MISSED -eq 0 ]
