#!/bin/bash
# tools/try_seed.sh <seed-dir under /tmp/seed, e.g. C04a> <property ids to run ...>
# 1. confirms the seeded change in its scratch worktree (/tmp/wt-<name>): baseline suite passes
#    with it, the demonstration fails with it and passes without it;
# 2. applies it to /repo, runs the named checks (quick tier), and undoes it straight afterwards.
set -u
NAME="$1"; shift
SEED=/tmp/seed/$NAME
WT=/tmp/wt-$NAME
ID=${NAME%?}
IDL=$(echo "$ID" | tr 'A-Z' 'a-z')
OUT=/verif/sensitivity/$NAME
mkdir -p "$OUT"
# PHASE=confirm : only step 1 (does not touch /repo); PHASE=apply : only step 2 (uses the recorded
# confirmation); default: both
PHASE=${PHASE:-both}
if [ "$PHASE" != apply ]; then
cd "$WT" || exit 2
git checkout -q -- . 2>/dev/null
git checkout -q --detach "$(git -C /repo rev-parse HEAD)" 2>/dev/null   # follow fix commits made in /repo meanwhile
mkdir -p tests; cp "$SEED/demo_$IDL.rs" tests/demo_$IDL.rs
FEAT=""; grep -q verif_hooks "$SEED/demo_$IDL.rs" && FEAT="--features verif_hooks"
# without the change: demo passes
cargo test --offline $FEAT --test demo_$IDL >"$OUT/demo_without.log" 2>&1; DEMO_WITHOUT=$?
git apply "$SEED/patch.diff" || { echo "patch does not apply"; exit 2; }
cargo test --offline $FEAT --test demo_$IDL >"$OUT/demo_with.log" 2>&1; DEMO_WITH=$?
mv tests/demo_$IDL.rs /tmp/demo_$IDL.rs.$$
cargo test --workspace --no-fail-fast --offline >"$OUT/suite_with.log" 2>&1; SUITE=$?
PASSED=$(grep -E "^test result" "$OUT/suite_with.log" | head -1)
mv /tmp/demo_$IDL.rs.$$ tests/demo_$IDL.rs
echo "[$NAME] demo without change: exit $DEMO_WITHOUT (want 0); demo with change: exit $DEMO_WITH (want != 0); existing suite with change: exit $SUITE (want 0) $PASSED"
CONFIRMED=false
if [ $DEMO_WITHOUT -eq 0 ] && [ $DEMO_WITH -ne 0 ] && [ $SUITE -eq 0 ]; then CONFIRMED=true; fi
echo $CONFIRMED > "$OUT/confirmed"
[ "$PHASE" = confirm ] && exit 0
fi
CONFIRMED=$(cat "$OUT/confirmed" 2>/dev/null || echo false)
# run the checks against /repo with the patch applied
cd /verif
git -C /repo diff --quiet || { echo "/repo is dirty, refusing"; exit 2; }
git -C /repo apply "$SEED/patch.diff" || { echo "patch does not apply to /repo"; exit 2; }
find /verif/replays -type f | sort > /tmp/replays_before.$$
rm -rf /tmp/evidence_keep.$$; cp -r /verif/evidence /tmp/evidence_keep.$$
RESULTS=""
for P in "$@"; do
  ./check $P --tier quick >"$OUT/check_$P.log" 2>&1; RC=$?
  LINE=$(grep -m1 -E "^VIOLATION" "$OUT/check_$P.log" | cut -c1-160)
  CL=$(grep -m1 -E "^  clause:" "$OUT/check_$P.log" | cut -c1-200)
  echo "[$NAME] check $P exit $RC $LINE $CL"
  RESULTS="$RESULTS $P:$RC"
done
git -C /repo checkout -- .
# remove replay files written while the seeded change was applied (they are mutant-specific)
find /verif/replays -type f | sort > /tmp/replays_after.$$
comm -13 /tmp/replays_before.$$ /tmp/replays_after.$$ | xargs -r rm -f
rm -f /tmp/replays_before.$$ /tmp/replays_after.$$
# evidence files must describe runs on the unchanged tree: restore them
rm -rf /verif/evidence; mv /tmp/evidence_keep.$$ /verif/evidence
echo "$NAME confirmed=$CONFIRMED results:$RESULTS" >> /verif/sensitivity/summary.txt
