#![no_main]
//! Byte-level fuzzing of every JSON entry point (C20 family C, and the shape rules of loaded
//! objects): the first byte selects the loader (14 document kinds, direct or through the tagged
//! from_json entry point), the rest is the JSON text.

use libfuzzer_sys::fuzz_target;
use rlverif::engine::{fuzz_case, install_panic_hook, load_known, FuzzOutcome, KnownFinding};
use rlverif::props::c20::{raw_document_case, C20};
use std::sync::OnceLock;

static KNOWN: OnceLock<Vec<KnownFinding>> = OnceLock::new();

fuzz_target!(|data: &[u8]| {
    let known = KNOWN.get_or_init(|| {
        pyo3::prepare_freethreaded_python();
        install_panic_hook();
        load_known("C20")
    });
    if let Some(case) = raw_document_case(data) {
        if let FuzzOutcome::Violation { replay, failure } = fuzz_case(&C20, known, case) {
            eprintln!("VIOLATION property=C20 replay={}", replay.display());
            eprintln!("  clause: {}", failure.clause);
            eprintln!("  detail: {}", failure.detail);
            std::process::abort();
        }
    }
});
