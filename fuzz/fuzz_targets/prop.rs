#![no_main]
//! Coverage-guided fuzzing of one property (chosen by the environment variable
//! RLVERIF_FUZZ_ID): the input bytes are the random stream of the property's own proptest
//! strategy, so the generators, reference models and oracles of /verif/harness are reused
//! unchanged. A violation writes a plain replay file (usable with `./check <ID> --replay`) and
//! aborts, which libFuzzer records as a crash.

use libfuzzer_sys::fuzz_target;
use rlverif::engine::{install_panic_hook, load_known, FuzzOutcome, KnownFinding};
use std::sync::OnceLock;

struct Ctx {
    id: String,
    known: Vec<KnownFinding>,
}
static CTX: OnceLock<Ctx> = OnceLock::new();

fn ctx() -> &'static Ctx {
    CTX.get_or_init(|| {
        pyo3::prepare_freethreaded_python();
        // replace libFuzzer's aborting panic hook: library panics are caught and judged by the oracles
        install_panic_hook();
        let id = std::env::var("RLVERIF_FUZZ_ID").expect("set RLVERIF_FUZZ_ID to a property id");
        let known = load_known(&id);
        Ctx { id, known }
    })
}

fuzz_target!(|data: &[u8]| {
    let c = ctx();
    match rlverif::props::fuzz_dispatch(&c.id, &c.known, data) {
        Some(FuzzOutcome::Violation { replay, failure }) => {
            eprintln!("VIOLATION property={} replay={}", c.id, replay.display());
            eprintln!("  clause: {}", failure.clause);
            eprintln!("  detail: {}", failure.detail);
            std::process::abort();
        }
        Some(_) => {}
        None => {
            eprintln!("unknown property id {}", c.id);
            std::process::exit(2);
        }
    }
});
