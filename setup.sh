#!/bin/bash
# MANIFEST.setup_cmd: cold offline build of the harness (and nothing else).
set -eu
ROOT="$(cd "$(dirname "$0")" && pwd)"
export CARGO_NET_OFFLINE=true
cd "$ROOT/harness"
cargo build --release --offline --bin rlverif
echo "setup ok"
